package main

import (
	"fmt"
	"go/constant"
	"go/token"
	"go/types"
	"os"
	"path/filepath"
	"reflect"
	"sort"
	"strings"

	"github.com/zmap/zlint/v3/lint"
	"golang.org/x/tools/go/packages"
	"golang.org/x/tools/go/ssa"
	"golang.org/x/tools/go/ssa/ssautil"
)

// The fact translator: loads /repo/v3 with go/packages (+ the verif overlay), builds SSA, and for every
// registered lint computes the closure of module-internal functions statically reachable from its constructor,
// Configure, CheckApplies and Execute, then reads facts off the SSA.  Facts are over-approximations by intent.

const modPath = "github.com/zmap/zlint/v3"

type LintFacts struct {
	Name, Kind, TypeName string
	Funcs                int
	MayReturn            []int    // LintStatus constants stored into a LintResult.Status in the closure
	StatusUnknown        []string // positions where a non-constant flows into Status
	NilResult            []string // positions where a nil *LintResult may be returned from Execute
	Reads                []string // fields of the linted object read in the closure
	ReadSites            map[string][]string
	Outside              []string // external functions called (pkg.Func)
	Forbidden            []string // subset that performs I/O, time, randomness, environment
	GlobalWrites         []string // stores to package-level state (outside init)
	ObjectWrites         []string // stores through the linted object / sort or append-back on its slices
	MapRange             []string // range over a map whose body feeds string building
	Dynamic              []string // interface method calls not resolved (module-internal interfaces)
	RiskSites            int
	PanicSites           []string // unchecked type assertions, explicit panics, integer division by a variable (keys, not positions)
	ClosureFns           []string `json:"-"` // module functions reachable from the lint (funcKey)
}

func shortQual(p *types.Package) string { return p.Name() }

// funcKey: package-relative name of a function inside the module, stable under edits elsewhere in the file
func funcKey(f *ssa.Function) string {
	return strings.ReplaceAll(f.RelString(nil), "github.com/zmap/zlint/v3/", "")
}

func addPanicSite(lf *LintFacts, k string) {
	for _, x := range lf.PanicSites {
		if x == k {
			return
		}
	}
	lf.PanicSites = append(lf.PanicSites, k)
}

type factsProg struct {
	prog    *ssa.Program
	pkgs    map[string]*ssa.Package
	objType map[string]types.Type // kind -> named type of the linted object
}

func loadProgram() (*factsProg, error) {
	overlay := map[string][]byte{}
	for dst, src := range map[string]string{
		filepath.Join(repoDir(), "v3/lint/zz_verif_hooks.go"): "/verif/hooks/lint_verif.go",
		filepath.Join(repoDir(), "v3/util/zz_verif_hooks.go"): "/verif/hooks/util_verif.go",
	} {
		b, err := os.ReadFile(src)
		if err == nil {
			overlay[dst] = b
		}
	}
	cfg := &packages.Config{
		Mode:       packages.NeedName | packages.NeedFiles | packages.NeedCompiledGoFiles | packages.NeedImports | packages.NeedDeps | packages.NeedTypes | packages.NeedSyntax | packages.NeedTypesInfo | packages.NeedTypesSizes | packages.NeedModule,
		Dir:        filepath.Join(repoDir(), "v3"),
		Env:        append(os.Environ(), "GOFLAGS=-mod=mod", "GOPROXY=off", "GOSUMDB=off", "GOTOOLCHAIN=local"),
		BuildFlags: []string{"-tags", "verif"},
		Overlay:    overlay,
	}
	initial, err := packages.Load(cfg, ".", "./lint", "./util", "./lints/...")
	if err != nil {
		return nil, err
	}
	if packages.PrintErrors(initial) > 0 {
		return nil, fmt.Errorf("packages.Load reported errors")
	}
	prog, _ := ssautil.AllPackages(initial, ssa.InstantiateGenerics)
	prog.Build()
	fp := &factsProg{prog: prog, pkgs: map[string]*ssa.Package{}, objType: map[string]types.Type{}}
	for _, p := range prog.AllPackages() {
		fp.pkgs[p.Pkg.Path()] = p
	}
	return fp, nil
}

func inModule(f *ssa.Function) bool {
	if f == nil || f.Pkg == nil {
		// methods of instantiated generics / synthetic wrappers: decide by the object's package
		if f != nil && f.Object() != nil && f.Object().Pkg() != nil {
			return strings.HasPrefix(f.Object().Pkg().Path(), modPath)
		}
		return false
	}
	return strings.HasPrefix(f.Pkg.Pkg.Path(), modPath)
}

func funcName(f *ssa.Function) string {
	if f.Object() != nil && f.Object().Pkg() != nil {
		if recv := f.Signature.Recv(); recv != nil {
			return f.Object().Pkg().Path() + "." + strings.TrimPrefix(types.TypeString(recv.Type(), func(*types.Package) string { return "" }), "*") + "." + f.Name()
		}
		return f.Object().Pkg().Path() + "." + f.Name()
	}
	return f.String()
}

func (fp *factsProg) pos(p token.Pos) string {
	if !p.IsValid() {
		return "?"
	}
	ps := fp.prog.Fset.Position(p)
	rel, err := filepath.Rel(filepath.Join(repoDir(), "v3"), ps.Filename)
	if err != nil {
		rel = ps.Filename
	}
	return fmt.Sprintf("%s:%d", rel, ps.Line)
}

var forbiddenPrefixes = []string{"os.", "os/exec.", "net/http.", "syscall.", "math/rand.", "crypto/rand.", "io/ioutil.", "os/signal.", "os/user.", "net.Dial", "net.Lookup", "net.Listen", "net.Resolve", "time.Now", "time.Unix", "time.UnixMilli", "time.UnixMicro", "time.LoadLocation", "time.Time.Local", "time.Time.In", "(time.Time).Local", "(time.Time).In", "time.Since", "time.Until", "time.Sleep", "time.After", "time.Tick", "time.NewTimer", "time.NewTicker", "time.AfterFunc", "runtime.GOMAXPROCS", "runtime.NumGoroutine", "runtime.NumCPU", "runtime.Gosched", "runtime.ReadMemStats", "runtime.GC", "context.WithTimeout", "context.WithDeadline", "plugin.", "log.Fatal", "log.Panic"}

func isForbidden(name string) bool {
	for _, p := range forbiddenPrefixes {
		if strings.HasPrefix(name, p) {
			return true
		}
	}
	return false
}

// closure of module-internal functions statically reachable from roots (static calls, closures, method values)
func closure(roots []*ssa.Function) (fns []*ssa.Function, outside map[string]bool, dynamic []string, fp2 map[*ssa.Function]bool) {
	seen := map[*ssa.Function]bool{}
	outside = map[string]bool{}
	var work []*ssa.Function
	push := func(f *ssa.Function) {
		if f == nil || seen[f] {
			return
		}
		if !inModule(f) {
			outside[funcName(f)] = true
			return
		}
		seen[f] = true
		work = append(work, f)
	}
	for _, r := range roots {
		push(r)
	}
	for len(work) > 0 {
		f := work[len(work)-1]
		work = work[:len(work)-1]
		fns = append(fns, f)
		for _, af := range f.AnonFuncs {
			push(af)
		}
		for _, b := range f.Blocks {
			for _, ins := range b.Instrs {
				if call, ok := ins.(ssa.CallInstruction); ok {
					cc := call.Common()
					if cc.IsInvoke() {
						m := cc.Method
						if m.Pkg() != nil && strings.HasPrefix(m.Pkg().Path(), modPath) {
							dynamic = append(dynamic, m.Pkg().Path()+"."+m.Name())
						} else if m.Pkg() != nil {
							outside[m.Pkg().Path()+".(iface)."+m.Name()] = true
						}
					} else if callee := cc.StaticCallee(); callee != nil {
						push(callee)
					}
				}
				// function values taken (passed as callbacks)
				for _, op := range ins.Operands(nil) {
					if op == nil || *op == nil {
						continue
					}
					switch v := (*op).(type) {
					case *ssa.Function:
						push(v)
					case *ssa.MakeClosure:
						if fn, ok := v.Fn.(*ssa.Function); ok {
							push(fn)
						}
					}
				}
			}
		}
	}
	return fns, outside, dynamic, seen
}

func isNamed(t types.Type, pkgSuffix, name string) bool {
	if p, ok := t.(*types.Pointer); ok {
		t = p.Elem()
	}
	n, ok := t.(*types.Named)
	if !ok || n.Obj().Pkg() == nil {
		return false
	}
	return n.Obj().Name() == name && strings.HasSuffix(n.Obj().Pkg().Path(), pkgSuffix)
}

func isLintResult(t types.Type) bool { return isNamed(t, "zlint/v3/lint", "LintResult") }

func isLintedObject(t types.Type) (string, bool) {
	switch {
	case isNamed(t, "zcrypto/x509", "Certificate"):
		return "Certificate", true
	case isNamed(t, "zcrypto/x509", "RevocationList"):
		return "RevocationList", true
	case isNamed(t, "crypto/ocsp", "Response"):
		return "Response", true
	}
	return "", false
}

// resolve the constant values that may flow into v (through Phi and simple conversions)
func constVals(v ssa.Value, depth int, seen map[ssa.Value]bool) (vals []int64, unknown bool) {
	if depth > 12 || seen[v] {
		return nil, false
	}
	seen[v] = true
	switch x := v.(type) {
	case *ssa.Const:
		if x.Value != nil && x.Value.Kind() == constant.Int {
			n, _ := constant.Int64Val(x.Value)
			return []int64{n}, false
		}
		return []int64{0}, false
	case *ssa.Phi:
		for _, e := range x.Edges {
			vs, u := constVals(e, depth+1, seen)
			vals = append(vals, vs...)
			unknown = unknown || u
		}
		return
	case *ssa.Convert:
		return constVals(x.X, depth+1, seen)
	case *ssa.ChangeType:
		return constVals(x.X, depth+1, seen)
	case *ssa.UnOp:
		// a load from a *LintStatus cell (a local whose address is passed to helpers): resolved by the caller from
		// every constant stored into any such cell in the closure
		if x.Op == token.MUL && isNamed(x.Type(), "zlint/v3/lint", "LintStatus") {
			return []int64{statusCellMarker}, false
		}
	}
	return nil, true
}

const statusCellMarker = -424242

// does the address derive from a package-level variable?
func rootOf(v ssa.Value, depth int) ssa.Value {
	for i := 0; i < 20; i++ {
		switch x := v.(type) {
		case *ssa.FieldAddr:
			v = x.X
		case *ssa.IndexAddr:
			v = x.X
		case *ssa.Field:
			v = x.X
		case *ssa.Index:
			v = x.X
		case *ssa.UnOp:
			if x.Op == token.MUL {
				v = x.X
			} else {
				return v
			}
		case *ssa.Slice:
			v = x.X
		case *ssa.ChangeType:
			v = x.X
		case *ssa.Convert:
			v = x.X
		case *ssa.Phi:
			if len(x.Edges) > 0 {
				v = x.Edges[0]
			} else {
				return v
			}
		case *ssa.Extract:
			v = x.Tuple
		default:
			return v
		}
	}
	return v
}

func (fp *factsProg) analyse(name, kind, typeName string, roots []*ssa.Function, execFn *ssa.Function) LintFacts {
	fns, outside, dynamic, _ := closure(roots)
	lf := LintFacts{Name: name, Kind: kind, TypeName: typeName, Funcs: len(fns), ReadSites: map[string][]string{}}
	statuses := map[int]bool{}
	cellStatuses := map[int]bool{}
	var cellUnknown []string
	usesCell := false
	reads := map[string]bool{}
	var uncheckedAsserts [][2]string
	checkedTypes := map[string]bool{}
	for _, f := range fns {
		lf.ClosureFns = append(lf.ClosureFns, funcKey(f))
		isInit := f.Name() == "init" || strings.HasPrefix(f.Name(), "init#")
		for _, b := range f.Blocks {
			for _, ins := range b.Instrs {
				switch x := ins.(type) {
				case *ssa.Store:
					// a constant stored into a LintStatus cell
					if pt, ok := x.Addr.Type().Underlying().(*types.Pointer); ok && isNamed(pt.Elem(), "zlint/v3/lint", "LintStatus") {
						if _, isField := x.Addr.(*ssa.FieldAddr); !isField {
							vs, unk := constVals(x.Val, 0, map[ssa.Value]bool{})
							for _, v := range vs {
								if v != statusCellMarker {
									cellStatuses[int(v)] = true
								}
							}
							if unk {
								cellUnknown = append(cellUnknown, fp.pos(x.Pos()))
							}
						}
					}
					// Status field of a LintResult
					if fa, ok := x.Addr.(*ssa.FieldAddr); ok {
						if isLintResult(fa.X.Type()) && fa.Field == 0 {
							vs, unk := constVals(x.Val, 0, map[ssa.Value]bool{})
							for _, v := range vs {
								if v == statusCellMarker {
									usesCell = true
									continue
								}
								statuses[int(v)] = true
							}
							if unk {
								lf.StatusUnknown = append(lf.StatusUnknown, fp.pos(x.Pos()))
							}
						}
					}
					r := rootOf(x.Addr, 0)
					if _, ok := r.(*ssa.Global); ok && !isInit {
						lf.GlobalWrites = append(lf.GlobalWrites, fp.pos(x.Pos())+" "+r.Name())
					}
					if p, ok := r.(*ssa.Parameter); ok {
						if on, ok2 := isLintedObject(p.Type()); ok2 {
							lf.ObjectWrites = append(lf.ObjectWrites, fp.pos(x.Pos())+" store into "+on)
						}
					}
				case *ssa.MapUpdate:
					r := rootOf(x.Map, 0)
					if _, ok := r.(*ssa.Global); ok && !isInit {
						lf.GlobalWrites = append(lf.GlobalWrites, fp.pos(x.Pos())+" map "+r.Name())
					}
					if p, ok := r.(*ssa.Parameter); ok {
						if on, ok2 := isLintedObject(p.Type()); ok2 {
							lf.ObjectWrites = append(lf.ObjectWrites, fp.pos(x.Pos())+" map update in "+on)
						}
					}
				case *ssa.FieldAddr:
					if on, ok := isLintedObject(x.X.Type()); ok {
						st := x.X.Type().Underlying().(*types.Pointer).Elem().Underlying().(*types.Struct)
						fn := on + "." + st.Field(x.Field).Name()
						reads[fn] = true
						if len(lf.ReadSites[fn]) < 3 {
							lf.ReadSites[fn] = append(lf.ReadSites[fn], fp.pos(x.Pos()))
						}
					}
				case *ssa.Field:
					if on, ok := isLintedObject(x.X.Type()); ok {
						st := x.X.Type().Underlying().(*types.Struct)
						reads[on+"."+st.Field(x.Field).Name()] = true
					}
				case *ssa.IndexAddr, *ssa.Index, *ssa.Slice, *ssa.TypeAssert:
					if ta, ok := x.(*ssa.TypeAssert); ok && ta.CommaOk {
						checkedTypes[types.TypeString(ta.AssertedType, shortQual)] = true
						break
					}
					lf.RiskSites++
					if ta, ok := x.(*ssa.TypeAssert); ok && !isInit {
						h := "00000000"
						if syn := f.Syntax(); syn != nil {
							h = textDigest(fp.prog.Fset, syn)
						}
						uncheckedAsserts = append(uncheckedAsserts, [2]string{funcKey(f), types.TypeString(ta.AssertedType, shortQual) + "|h=" + h})
					}
				case *ssa.Panic:
					if !isInit {
						addPanicSite(&lf, "panic|"+funcKey(f))
					}
				case *ssa.Go:
					// a lint that starts goroutines shares whatever they touch with the caller's other work
					lf.GlobalWrites = append(lf.GlobalWrites, fp.pos(x.Pos())+" go statement in "+f.Name())
				case *ssa.BinOp:
					if (x.Op == token.QUO || x.Op == token.REM) && !isInit {
						if bt, ok := x.Y.Type().Underlying().(*types.Basic); ok && bt.Info()&types.IsInteger != 0 {
							if _, isConst := x.Y.(*ssa.Const); !isConst {
								addPanicSite(&lf, "intdiv|"+funcKey(f))
							}
						}
					}
				case *ssa.Range:
					if _, ok := x.X.Type().Underlying().(*types.Map); ok {
						lf.MapRange = append(lf.MapRange, fp.pos(x.Pos())+" in "+f.Name())
					}
				case ssa.CallInstruction:
					cc := x.Common()
					if callee := cc.StaticCallee(); callee != nil && !inModule(callee) {
						fname := funcName(callee)
						// shared state reached through sync / sync/atomic: a store is a store, however well synchronised
						if (strings.HasPrefix(fname, "sync/atomic.") || strings.HasPrefix(fname, "sync.Map.") || strings.HasPrefix(fname, "sync.Pool.") || strings.HasPrefix(fname, "atomic.")) && len(cc.Args) > 0 && !isInit {
							mutating := false
							for _, m := range []string{"Store", "Swap", "CompareAndSwap", "Add", "And", "Or", "LoadOrStore", "LoadAndDelete", "Delete", "Put", "Range", "Clear"} {
								if strings.Contains(fname, m) {
									mutating = true
								}
							}
							if g, ok := rootOf(cc.Args[0], 0).(*ssa.Global); ok && mutating {
								lf.GlobalWrites = append(lf.GlobalWrites, fp.pos(x.Pos())+" "+fname+" on "+g.Name())
							}
						}
						if strings.HasPrefix(fname, "sort.") && len(cc.Args) > 0 {
							r := rootOf(cc.Args[0], 0)
							if p, ok := r.(*ssa.Parameter); ok {
								if on, ok2 := isLintedObject(p.Type()); ok2 {
									lf.ObjectWrites = append(lf.ObjectWrites, fp.pos(x.Pos())+" "+fname+" on a slice of "+on)
								}
							}
						}
					}
				}
			}
		}
	}
	// nil *LintResult returned from Execute
	if execFn != nil {
		for _, b := range execFn.Blocks {
			for _, ins := range b.Instrs {
				if ret, ok := ins.(*ssa.Return); ok && len(ret.Results) == 1 {
					vs := []ssa.Value{ret.Results[0]}
					if phi, ok := ret.Results[0].(*ssa.Phi); ok {
						vs = phi.Edges
					}
					for _, v := range vs {
						if c, ok := v.(*ssa.Const); ok && c.IsNil() {
							lf.NilResult = append(lf.NilResult, fp.pos(ret.Pos()))
						}
					}
				}
			}
		}
	}
	if usesCell {
		for s := range cellStatuses {
			statuses[s] = true
		}
		lf.StatusUnknown = append(lf.StatusUnknown, cellUnknown...)
	}
	for s := range statuses {
		lf.MayReturn = append(lf.MayReturn, s)
	}
	sort.Ints(lf.MayReturn)
	lf.Reads = sortedKeys(reads)
	lf.Outside = sortedKeys(outside)
	for _, o := range lf.Outside {
		if isForbidden(o) {
			lf.Forbidden = append(lf.Forbidden, o)
		}
	}
	sort.Strings(dynamic)
	lf.Dynamic = uniq(dynamic)
	// an unchecked assertion x.(T) is keyed together with whether the same closure also asserts T with the comma-ok form
	// (the usual shape: CheckApplies tests the type, Execute relies on it)
	for _, ua := range uncheckedAsserts {
		guard := "type-not-tested-elsewhere"
		if checkedTypes[strings.SplitN(ua[1], "|h=", 2)[0]] {
			guard = "type-tested-with-comma-ok-in-closure"
		}
		addPanicSite(&lf, "typeassert|"+ua[0]+"|"+ua[1]+"|"+guard)
	}
	return lf
}

func uniq(s []string) []string {
	var out []string
	for i, x := range s {
		if i == 0 || x != s[i-1] {
			out = append(out, x)
		}
	}
	return out
}

// methods of the concrete lint type
func (fp *factsProg) lintRoots(inst interface{}) (typeName string, roots []*ssa.Function, exec *ssa.Function, err error) {
	rt := reflect.TypeOf(inst)
	if rt == nil {
		return "", nil, nil, fmt.Errorf("nil instance")
	}
	ptr := rt.Kind() == reflect.Ptr
	et := rt
	if ptr {
		et = rt.Elem()
	}
	pkg := fp.pkgs[et.PkgPath()]
	if pkg == nil {
		return rt.String(), nil, nil, fmt.Errorf("package %s not loaded", et.PkgPath())
	}
	tn := pkg.Type(et.Name())
	if tn == nil {
		return rt.String(), nil, nil, fmt.Errorf("type %s not found", et.Name())
	}
	var t types.Type = tn.Type()
	if ptr {
		t = types.NewPointer(t)
	}
	ms := fp.prog.MethodSets.MethodSet(t)
	for i := 0; i < ms.Len(); i++ {
		fn := fp.prog.MethodValue(ms.At(i))
		if fn == nil {
			continue
		}
		switch fn.Name() {
		case "Execute", "CheckApplies", "Configure":
			roots = append(roots, fn)
			if fn.Name() == "Execute" {
				exec = fn
			}
		}
	}
	return rt.String(), roots, exec, nil
}

func computeFactsTicked() { tick() }

func computeFacts() ([]LintFacts, map[string]interface{}, error) {
	fp, err := loadProgram()
	if err != nil {
		return nil, nil, err
	}
	g := lint.GlobalRegistry()
	var all []LintFacts
	add := func(name, kind string, inst interface{}) {
		tn, roots, exec, err := fp.lintRoots(inst)
		if err != nil || exec == nil {
			all = append(all, LintFacts{Name: name, Kind: kind, TypeName: tn, StatusUnknown: []string{"no SSA for lint type: " + fmt.Sprint(err)}})
			return
		}
		all = append(all, fp.analyse(name, kind, tn, roots, exec))
	}
	for _, l := range g.CertificateLints().Lints() {
		add(l.Name, "cert", l.Lint())
	}
	for _, l := range g.RevocationListLints().Lints() {
		add(l.Name, "crl", l.Lint())
	}
	for _, l := range g.OcspResponseLints().Lints() {
		add(l.Name, "ocsp", l.Lint())
	}
	// framework entry points (C10): global writes / lock operations reachable from the public read API
	extra := map[string]interface{}{}
	var entry []*ssa.Function
	if zp := fp.pkgs[modPath]; zp != nil {
		for _, n := range []string{"LintCertificateEx", "LintRevocationListEx", "LintOcspResponseEx", "LintCertificate", "LintRevocationList", "LintOcspResponse"} {
			if f := zp.Func(n); f != nil {
				entry = append(entry, f)
			}
		}
	}
	var lockOps []string
	if lp := fp.pkgs[modPath+"/lint"]; lp != nil {
		if tn := lp.Type("registryImpl"); tn != nil {
			ms := fp.prog.MethodSets.MethodSet(types.NewPointer(tn.Type()))
			for i := 0; i < ms.Len(); i++ {
				fn := fp.prog.MethodValue(ms.At(i))
				if fn == nil {
					continue
				}
				switch fn.Name() {
				case "Names", "Sources", "ByName", "BySource", "Filter", "WriteJSON", "GetConfiguration", "CertificateLints", "RevocationListLints", "OcspResponseLints", "DefaultConfiguration":
					entry = append(entry, fn)
				}
			}
		}
		for _, tname := range []string{"certificateLinterLookupImpl", "revocationListLinterLookupImpl", "ocspResponseLinterLookupImpl", "linterLookupImpl"} {
			if tn := lp.Type(tname); tn != nil {
				ms := fp.prog.MethodSets.MethodSet(types.NewPointer(tn.Type()))
				for i := 0; i < ms.Len(); i++ {
					fn := fp.prog.MethodValue(ms.At(i))
					if fn == nil || fn.Name() == "register" {
						continue
					}
					switch fn.Name() {
					case "Names", "Sources", "ByName", "BySource", "Lints":
						entry = append(entry, fn)
					}
				}
			}
		}
	}
	efns, _, _, _ := closure(entry)
	var gw []string
	for _, f := range efns {
		for _, b := range f.Blocks {
			for _, ins := range b.Instrs {
				switch x := ins.(type) {
				case *ssa.Store:
					if _, ok := rootOf(x.Addr, 0).(*ssa.Global); ok {
						gw = append(gw, fp.pos(x.Pos())+" "+rootOf(x.Addr, 0).Name())
					}
				case *ssa.MapUpdate:
					if _, ok := rootOf(x.Map, 0).(*ssa.Global); ok {
						gw = append(gw, fp.pos(x.Pos())+" map "+rootOf(x.Map, 0).Name())
					}
				case *ssa.Go:
					gw = append(gw, fp.pos(x.Pos())+" go statement in "+f.Name())
				case ssa.CallInstruction:
					if callee := x.Common().StaticCallee(); callee != nil {
						n := funcName(callee)
						if strings.HasPrefix(n, "sync.RWMutex.") || strings.HasPrefix(n, "sync.Mutex.") {
							lockOps = append(lockOps, fp.pos(x.Pos())+" "+strings.TrimPrefix(strings.TrimPrefix(n, "sync.RWMutex."), "sync.Mutex.")+" in "+f.Name())
						}
					}
				}
			}
		}
	}
	sort.Strings(gw)
	sort.Strings(lockOps)
	extra["entry_functions"] = len(efns)
	extra["entry_global_writes"] = gw
	extra["lock_ops"] = lockOps
	return all, extra, nil
}

func init() {
	commands["facts"] = func(args []string) error {
		out := NewOutput()
		all, extra, err := computeFacts()
		if err != nil {
			return err
		}
		out.Data["facts"] = all
		out.Data["extra"] = extra
		return out.Emit()
	}
}

// statusfacts: per lint, the status constants that can flow into a result and the sites where a non-constant does
func init() {
	commands["statusfacts"] = func(args []string) error {
		out := NewOutput()
		facts, _, err := computeFacts()
		if err != nil {
			return err
		}
		type sf struct {
			Name          string
			MayReturn     []int
			StatusUnknown []string
			NilResult     []string
		}
		var l []sf
		for _, f := range facts {
			l = append(l, sf{f.Name, f.MayReturn, f.StatusUnknown, f.NilResult})
		}
		out.Data["facts"] = l
		return out.Emit()
	}
}
