package main

import (
	"fmt"
	"sort"
	"strings"
	"time"

	"github.com/zmap/zcrypto/encoding/asn1"
	"github.com/zmap/zcrypto/x509"
	"github.com/zmap/zlint/v3"
	"github.com/zmap/zlint/v3/lint"
	"github.com/zmap/zlint/v3/util"
	"golang.org/x/crypto/ocsp"
)

// decoyDate returns a date for the fields of an object that must NOT decide effectiveness (a certificate's notAfter,
// a CRL's nextUpdate, an OCSP response's thisUpdate and producedAt): always on the other side of the usual windows
// from the deciding date, or an extreme.
func decoyDate(t time.Time, salt int) time.Time {
	early := time.Date(1990, 1, 1, 0, 0, 0, 0, time.UTC)
	late := time.Date(2024, 6, 1, 12, 0, 0, 0, time.UTC)
	switch salt % 4 {
	case 0:
		if t.IsZero() || t.Before(time.Date(2015, 1, 1, 0, 0, 0, 0, time.UTC)) {
			return late
		}
		return early
	case 1:
		return time.Time{}
	case 2:
		return time.Date(9999, 12, 31, 23, 59, 59, 0, time.UTC)
	}
	if t.IsZero() {
		return late
	}
	return t.AddDate(0, 0, 400)
}

func decoyCRL(t time.Time, salt int) *x509.RevocationList {
	return &x509.RevocationList{ThisUpdate: t, NextUpdate: decoyDate(t, salt)}
}

func decoyOCSP(t time.Time, salt int) *ocsp.Response {
	return &ocsp.Response{NextUpdate: t, ThisUpdate: decoyDate(t, salt), ProducedAt: decoyDate(t, salt+1)}
}

// scope objects: one certificate struct per (server-auth, email, code-signing) combination
// reusedCert: one certificate value edited in place and linted again and again (what a caller does who patches a
// parsed certificate before re-linting it, as the repository's own test helper documents): nothing the framework
// derived from the earlier content may survive
var reusedCert = &x509.Certificate{}

func scopeCertReused(sa, em, cs bool, nb time.Time, reuse bool) *x509.Certificate {
	c := scopeCert(sa, em, cs, nb)
	if !reuse {
		return c
	}
	*reusedCert = *c
	return reusedCert
}

func scopeCert(sa, em, cs bool, nb time.Time) *x509.Certificate {
	c := &x509.Certificate{NotBefore: nb, NotAfter: decoyDate(nb, int(nb.Unix()&3))}
	if sa {
		c.ExtKeyUsage = append(c.ExtKeyUsage, x509.ExtKeyUsageServerAuth)
	} else {
		c.ExtKeyUsage = append(c.ExtKeyUsage, x509.ExtKeyUsageClientAuth)
	}
	if em {
		c.ExtKeyUsage = append(c.ExtKeyUsage, x509.ExtKeyUsageEmailProtection)
		c.EmailAddresses = []string{"a@example.com"}
	}
	if cs {
		c.PolicyIdentifiers = append(c.PolicyIdentifiers, asn1.ObjectIdentifier{2, 23, 140, 1, 4, 1})
	}
	return c
}

var refDate = time.Date(2020, 6, 15, 12, 0, 0, 0, time.UTC)

type winCase struct {
	name       string
	eff, ineff time.Time
	target     time.Time
}

func windowCases() []winCase {
	e := time.Date(2019, 1, 1, 0, 0, 0, 0, time.UTC)
	i := time.Date(2022, 1, 1, 0, 0, 0, 0, time.UTC)
	z := time.Time{}
	return []winCase{
		{"both-zero", z, z, refDate},
		{"in", e, i, refDate},
		{"before", e, i, e.Add(-time.Second)},
		{"at-eff", e, i, e},
		{"last-in", e, i, i.Add(-time.Second)},
		{"at-ineff", e, i, i},
		{"eff-only-before", e, z, e.Add(-time.Nanosecond)},
		{"ineff-only-after", z, i, i.Add(time.Second)},
		{"zerodate-eff", util.ZeroDate, z, refDate},
	}
}

// runOne executes one lint object three times on the same object: every execution must behave like the first
// (one constructor call, fresh instance, same result).  It returns the first observation and, when a later run
// differs, a description of the difference.
func runOne(kind string, s *Script, cfg lint.Configuration, c *x509.Certificate, nb time.Time) (Obs, []int, string) {
	log := []int{}
	var o Obs
	s.armed = true
	s.Stateful = true
	var exec func() Obs
	switch kind {
	case "cert":
		l := s.certLint(&log)
		exec = func() Obs { return observe(func() *lint.LintResult { return l.Execute(c, cfg) }) }
	case "crl":
		l := s.crlLint(&log)
		exec = func() Obs { return observe(func() *lint.LintResult { return l.Execute(decoyCRL(nb, int(nb.Unix()&3)), cfg) }) }
	case "ocsp":
		l := s.ocspLint(&log)
		exec = func() Obs { return observe(func() *lint.LintResult { return l.Execute(decoyOCSP(nb, int(nb.Unix()&3)), cfg) }) }
	}
	o = exec()
	first := append([]int{}, log...)
	diff := ""
	for rep := 2; rep <= 3; rep++ {
		log = log[:0]
		o2 := exec()
		if o2 != o || fmt.Sprint(log) != fmt.Sprint(first) {
			diff = fmt.Sprintf("execution %d of the same lint gives %+v with call log %v; the first gave %+v with call log %v", rep, o2, log, o, first)
			break
		}
	}
	return o, first, diff
}

// stream "product": single mock lints over the product of life-cycle dimensions
func genProduct(out *Output, rng *Rng, limit int) {
	srcs := []string{"CABF_BR", "CABF_SMIME_BR", "CABF_CS_BR", "RFC5280", "Community", "CABF_EV", "cabf_br"}
	news := []string{"", "constructor exploded"}
	cfgs := []string{"none", "ok", "err", "panic"}
	apps := []string{"true", "false", "panic"}
	type exe struct {
		kind   string
		status int
		det    string
	}
	exes := []exe{{"res", 3, ""}, {"res", 6, "details \"quoted\" \xff"}, {"res", 1, ""}, {"res", 2, ""}, {"res", 4, "n"}, {"res", 5, "w"},
		{"res", 7, "f"}, {"res", 0, ""}, {"res", 9, "x"}, {"res", -1, ""}, {"nil", 0, ""}, {"panic", 0, ""}}
	wins := windowCases()
	type combo struct {
		kind, src, nw, cfg, app string
		ex                      exe
		w                       winCase
		sa, em, cs              bool
	}
	var all []combo
	for _, kind := range []string{"cert", "crl", "ocsp"} {
		for _, src := range srcs {
			for _, nw := range news {
				for _, cfg := range cfgs {
					for _, app := range apps {
						for _, ex := range exes {
							for _, w := range wins {
								scopes := [][3]bool{{true, true, true}}
								if kind == "cert" {
									scopes = [][3]bool{{true, true, true}, {false, false, false}, {true, false, false}, {false, true, false}, {false, false, true}}
								}
								for _, sc := range scopes {
									all = append(all, combo{kind, src, nw, cfg, app, ex, w, sc[0], sc[1], sc[2]})
								}
							}
						}
					}
				}
			}
		}
	}
	out.Stats["product_size"] = len(all)
	idx := make([]int, len(all))
	for i := range idx {
		idx[i] = i
	}
	if limit > 0 && limit < len(all) {
		rng.Shuffle(len(idx), func(i, j int) { idx[i], idx[j] = idx[j], idx[i] })
		idx = idx[:limit]
		sort.Ints(idx)
	}
	seen := map[string]bool{}
	for n, k := range idx {
		cb := all[k]
		s := &Script{Name: fmt.Sprintf("e_mock_%d", n%7), Desc: "d", Cite: "c", Src: cb.src, Eff: cb.w.eff, Ineff: cb.w.ineff,
			NewPanic: cb.nw, Cfg: cb.cfg, App: cb.app, AppMsg: "applies exploded", Exe: cb.ex.kind, ExeStatus: cb.ex.status,
			ExeDetails: cb.ex.det, ExeMsg: "execute exploded"}
		cfg, _, err := configFor([]*Script{s})
		if err != nil {
			panic(err)
		}
		c := scopeCertReused(cb.sa, cb.em, cb.cs, cb.w.target, rng.Bool())
		ao := absCert(c)
		ao.TU, ao.NU = cb.w.target, cb.w.target
		o, log, repDiff := runOne(cb.kind, s, cfg, c, cb.w.target)
		if repDiff != "" {
			out.Violate("C04|not-fresh-instance:"+cb.kind, "a later execution of the same lint does not behave like a fresh, freshly configured instance: "+repDiff,
				map[string]interface{}{"kind": cb.kind, "script": s, "window": cb.w.name}, nil, nil)
		}
		term := fmt.Sprintf("(%s, %s, %s, %s, %s)", kindCoq[cb.kind], s.Coq(), ao.Coq(), o.Coq(), cqLog(log))
		tag := fmt.Sprintf("%s/%s/%v/%d", cb.kind, o.Kind, o.Status, len(log))
		addMonitor(out, monitorRun(cb.kind, s, ao, cb.w.target, o, log, true),
			map[string]interface{}{"kind": cb.kind, "script": s, "window": cb.w.name, "scope": []bool{cb.sa, cb.em, cb.cs}, "observed": o, "log": log})
		if !seen[term] {
			seen[term] = true
			out.Add("product", Case{Coq: term, Tag: tag, Desc: map[string]interface{}{"kind": cb.kind, "script": s, "window": cb.w.name,
				"scope": []bool{cb.sa, cb.em, cb.cs}, "observed": o, "log": log}})
		}
	}
}

// stream "window": checkEffective through the public API of the three kinds
func genWindow(out *Output, rng *Rng, nRandom int, pairStride int) {
	g := lint.GlobalRegistry()
	dateSet := map[int64]time.Time{}
	add := func(t time.Time) {
		if !t.IsZero() {
			dateSet[t.Unix()] = t
		}
	}
	for _, l := range g.CertificateLints().Lints() {
		add(l.EffectiveDate)
		add(l.IneffectiveDate)
	}
	for _, l := range g.RevocationListLints().Lints() {
		add(l.EffectiveDate)
		add(l.IneffectiveDate)
	}
	for _, l := range g.OcspResponseLints().Lints() {
		add(l.EffectiveDate)
		add(l.IneffectiveDate)
	}
	var dates []time.Time
	for _, t := range dateSet {
		dates = append(dates, t)
	}
	sort.Slice(dates, func(i, j int) bool { return dates[i].Before(dates[j]) })
	out.Data["distinct_registry_dates"] = len(dates)
	zones := []*time.Location{time.UTC, time.FixedZone("plus14", 14*3600), time.FixedZone("minus12", -12*3600)}
	bounds := append([]time.Time{{}}, dates...)
	seen := map[string]bool{}
	legacyNames := lint.GlobalRegistry().CertificateLints().Names()
	emit := func(eff, ineff, t time.Time) {
		kinds := []string{"cert", "crl", "ocsp", "legacy", "legacy-registry"}
		k := kinds[rng.Intn(5)]
		md := lint.LintMetadata{EffectiveDate: eff, IneffectiveDate: ineff}
		var got bool
		salt := rng.Intn(4)
		switch k {
		case "cert":
			got = (&lint.CertificateLint{LintMetadata: md}).CheckEffective(&x509.Certificate{NotBefore: t, NotAfter: decoyDate(t, salt)})
		case "crl":
			got = (&lint.RevocationListLint{LintMetadata: md}).CheckEffective(decoyCRL(t, salt))
		case "ocsp":
			got = (&lint.OcspResponseLint{LintMetadata: md}).CheckEffective(decoyOCSP(t, salt))
		case "legacy":
			// the older Lint type, still exported: built from a literal ...
			got = (&lint.Lint{Name: "e_legacy", EffectiveDate: eff, IneffectiveDate: ineff}).CheckEffective(&x509.Certificate{NotBefore: t, NotAfter: decoyDate(t, salt)})
		case "legacy-registry":
			// ... and as handed out by the registry (a private copy), with its window changed by the caller
			if lg := lint.GlobalRegistry().ByName(legacyNames[rng.Intn(len(legacyNames))]); lg != nil {
				lg.EffectiveDate, lg.IneffectiveDate = eff, ineff
				got = lg.CheckEffective(&x509.Certificate{NotBefore: t, NotAfter: decoyDate(t, salt)})
			} else {
				k = "cert"
				got = (&lint.CertificateLint{LintMetadata: md}).CheckEffective(&x509.Certificate{NotBefore: t, NotAfter: decoyDate(t, salt)})
			}
		}
		term := fmt.Sprintf("(%s, %s, %s, %s)", instantZ(eff), instantZ(ineff), instantZ(t), cqBool(got))
		if !seen[term] {
			seen[term] = true
			out.Add("window", Case{Coq: term, Tag: fmt.Sprintf("%v/%v/%v", eff.IsZero(), ineff.IsZero(), got),
				Desc: map[string]interface{}{"eff": eff.String(), "ineff": ineff.String(), "t": t.String(), "kind": k, "got": got}})
		}
	}
	deltas := []time.Duration{-time.Second, -time.Nanosecond, 0, time.Nanosecond, time.Second}
	for _, e := range bounds {
		for _, i := range bounds {
			if !e.IsZero() && !i.IsZero() && !e.Before(i) && rng.Intn(4) != 0 {
				continue
			}
			if pairStride > 1 && !e.IsZero() && !i.IsZero() && rng.Intn(pairStride) != 0 {
				continue
			}
			for _, d := range []time.Time{e, i} {
				if d.IsZero() {
					d = refDate
				}
				for _, dl := range deltas {
					emit(e, i, d.Add(dl).In(zones[rng.Intn(3)]))
				}
			}
		}
	}
	// instants far outside the range in which nanosecond counters fit (before 1677-09-21, after 2262-04-11), and the
	// edges of that range: the comparison must be on instants, not on any wrapped representation
	extremes := []time.Time{
		time.Date(1, 1, 1, 0, 0, 1, 0, time.UTC), time.Date(1000, 6, 1, 0, 0, 0, 0, time.UTC), time.Date(1500, 1, 1, 0, 0, 0, 0, time.UTC),
		time.Date(1601, 1, 1, 0, 0, 0, 0, time.UTC), time.Date(1677, 9, 21, 0, 12, 43, 0, time.UTC), time.Date(1677, 9, 21, 0, 12, 44, 0, time.UTC),
		time.Date(1700, 1, 1, 0, 0, 0, 0, time.UTC), time.Date(1950, 1, 1, 0, 0, 0, 0, time.UTC), time.Date(2262, 4, 11, 23, 47, 16, 0, time.UTC),
		time.Date(2262, 4, 11, 23, 47, 17, 0, time.UTC), time.Date(2300, 1, 1, 0, 0, 0, 0, time.UTC), time.Date(2846, 1, 1, 0, 0, 0, 0, time.UTC),
		time.Date(9999, 12, 31, 23, 59, 59, 0, time.UTC), util.ZeroDate,
	}
	for _, x := range extremes {
		for _, d := range []time.Time{dates[0], dates[len(dates)/2], dates[len(dates)-1], {}} {
			emit(d, time.Time{}, x)
			emit(time.Time{}, d, x)
			emit(x, d, refDate)
			emit(d, x, refDate)
		}
		for _, y := range extremes {
			emit(x, y, refDate)
			emit(x, time.Time{}, y)
		}
	}
	// util.ZeroDate (year 0) is not the zero time
	emit(util.ZeroDate, time.Time{}, refDate)
	emit(util.ZeroDate, time.Time{}, util.ZeroDate.Add(-time.Second))
	emit(time.Time{}, util.ZeroDate, refDate)
	emit(time.Time{}, time.Time{}, time.Time{})
	emit(dates[0], time.Time{}, time.Time{})
	for n := 0; n < nRandom; n++ {
		rt := func() time.Time {
			switch rng.Intn(5) {
			case 0:
				return time.Time{}
			case 1:
				return pick(rng, dates)
			default:
				return time.Unix(int64(rng.Intn(2000000000)), int64(rng.Intn(1000000000))).In(zones[rng.Intn(3)])
			}
		}
		emit(rt(), rt(), rt())
	}
}

// abstraction of a real certificate lint on a real certificate by direct calls of its own methods
func abstractReal(name, src string, eff, ineff time.Time, newf func() interface{}, cfg lint.Configuration,
	applies func(inst interface{}) bool, exec func(inst interface{}) *lint.LintResult) *Script {
	s := &Script{Name: name, Src: src, Eff: eff, Ineff: ineff, Cfg: "none", App: "true", Exe: "res"}
	var inst interface{}
	func() {
		defer func() {
			if r := recover(); r != nil {
				s.NewPanic = fmt.Sprintf("%v", r)
			}
		}()
		inst = newf()
	}()
	if s.NewPanic != "" {
		return s
	}
	if _, ok := inst.(lint.Configurable); ok {
		s.Cfg = "ok"
		var err error
		var pv interface{}
		func() {
			defer func() { pv = recover() }()
			err = cfg.MaybeConfigure(inst, name)
		}()
		if pv != nil {
			s.Cfg, s.CfgMsg = "panic", fmt.Sprintf("%v", pv)
			return s
		}
		if err != nil {
			s.Cfg = "err"
			msg := err.Error()
			if i := strings.LastIndex(msg, "`zlint -exampleConfig`. Error: "); i >= 0 {
				msg = msg[i+len("`zlint -exampleConfig`. Error: "):]
			}
			s.CfgMsg = msg
			return s
		}
	}
	func() {
		defer func() {
			if r := recover(); r != nil {
				s.App, s.AppMsg = "panic", fmt.Sprintf("%v", r)
			}
		}()
		if applies(inst) {
			s.App = "true"
		} else {
			s.App = "false"
		}
	}()
	if s.App != "true" {
		return s
	}
	o := observe(func() *lint.LintResult { return exec(inst) })
	s.execAgain = func() Obs { return observe(func() *lint.LintResult { return exec(inst) }) }
	switch o.Kind {
	case "res":
		s.Exe, s.ExeStatus, s.ExeDetails = "res", o.Status, o.Details
	case "nil":
		s.Exe = "nil"
	default:
		s.Exe, s.ExeMsg = "panic", o.Msg
	}
	return s
}

// stream "real": every registered lint on corpus objects; the model fed with direct-call oracles must
// predict what the framework returns
func genReal(out *Output, rng *Rng, nCerts int, cfg lint.Configuration) {
	corpus := loadCorpus()
	g := lint.GlobalRegistry()
	certs := corpus.sampleCerts(rng, nCerts)
	seen := map[string]bool{}
	n := 0
	for _, l := range g.CertificateLints().Lints() {
		l := l
		for _, cc := range certs {
			c := cc.Cert
			s := abstractReal(l.Name, string(l.Source), l.EffectiveDate, l.IneffectiveDate,
				func() interface{} { return l.Lint() }, cfg,
				func(i interface{}) bool { return i.(lint.CertificateLintInterface).CheckApplies(c) },
				func(i interface{}) *lint.LintResult { return i.(lint.CertificateLintInterface).Execute(c) })
			o := observe(func() *lint.LintResult { return l.Execute(c, cfg) })
			reconcile(s, o)
			n++
			// the call log of a real lint is not observable: compare results only (log slot = model's own)
			term := fmt.Sprintf("(KCert, %s, %s, %s)", s.Coq(), absCert(c).Coq(), o.Coq())
			if !seen[term] {
				seen[term] = true
				out.Add("real", Case{Coq: term, Tag: fmt.Sprintf("cert/%s/%d/%s/%s", o.Kind, o.Status, s.App, s.Cfg),
					Desc: map[string]interface{}{"lint": l.Name, "file": cc.File, "observed": o, "abstract": s}})
			}
		}
	}
	for _, l := range g.RevocationListLints().Lints() {
		l := l
		for _, cc := range realCRLVariants(corpus) {
			c := cc.CRL
			s := abstractReal(l.Name, string(l.Source), l.EffectiveDate, l.IneffectiveDate,
				func() interface{} { return l.Lint() }, cfg,
				func(i interface{}) bool { return i.(lint.RevocationListLintInterface).CheckApplies(c) },
				func(i interface{}) *lint.LintResult { return i.(lint.RevocationListLintInterface).Execute(c) })
			o := observe(func() *lint.LintResult { return l.Execute(c, cfg) })
			reconcile(s, o)
			n++
			ao := AbsObj{TU: c.ThisUpdate}
			term := fmt.Sprintf("(KCrl, %s, %s, %s)", s.Coq(), ao.Coq(), o.Coq())
			if !seen[term] {
				seen[term] = true
				out.Add("real", Case{Coq: term, Tag: fmt.Sprintf("crl/%s/%d/%s", o.Kind, o.Status, s.App),
					Desc: map[string]interface{}{"lint": l.Name, "file": cc.File, "observed": o, "abstract": s}})
			}
		}
	}
	for _, l := range g.OcspResponseLints().Lints() {
		l := l
		for _, cc := range realOCSPVariants(corpus) {
			c := cc.Resp
			s := abstractReal(l.Name, string(l.Source), l.EffectiveDate, l.IneffectiveDate,
				func() interface{} { return l.Lint() }, cfg,
				func(i interface{}) bool { return i.(lint.OcspResponseLintInterface).CheckApplies(c) },
				func(i interface{}) *lint.LintResult { return i.(lint.OcspResponseLintInterface).Execute(c) })
			o := observe(func() *lint.LintResult { return l.Execute(c, cfg) })
			reconcile(s, o)
			n++
			ao := AbsObj{NU: c.NextUpdate}
			term := fmt.Sprintf("(KOcsp, %s, %s, %s)", s.Coq(), ao.Coq(), o.Coq())
			if !seen[term] {
				seen[term] = true
				out.Add("real", Case{Coq: term, Tag: fmt.Sprintf("ocsp/%s/%d/%s", o.Kind, o.Status, s.App),
					Desc: map[string]interface{}{"lint": l.Name, "file": cc.File, "observed": o, "abstract": s}})
			}
		}
	}
	out.Stats["real_pairs"] = n
}

// ---------- whole result sets ----------

type RsObs struct {
	Panic   string
	Results map[string][3]interface{} // name -> status, details, metadata name
	N, W, E, F bool
	Version int64
}

func observeRS(f func() *zlint.ResultSet) (o RsObs, nilResult bool) {
	tick()
	defer func() {
		if r := recover(); r != nil {
			o = RsObs{Panic: fmt.Sprintf("%v", r)}
		}
	}()
	rs := f()
	o = RsObs{Results: map[string][3]interface{}{}, N: rs.NoticesPresent, W: rs.WarningsPresent, E: rs.ErrorsPresent, F: rs.FatalsPresent, Version: rs.Version}
	for k, v := range rs.Results {
		if v == nil {
			nilResult = true
			continue
		}
		o.Results[k] = [3]interface{}{int(v.Status), v.Details, v.LintMetadata.Name}
	}
	return
}

func (o RsObs) Coq() string {
	if o.Panic != "" {
		return "(RsPanic " + cqBytes(o.Panic) + ")"
	}
	items := []string{}
	for _, k := range sortedKeys(o.Results) {
		v := o.Results[k]
		items = append(items, fmt.Sprintf("(%s, (%s, %s, %s))", cqBytes(k), cqZ(int64(v[0].(int))), cqBytes(v[1].(string)), cqBytes(v[2].(string))))
	}
	return fmt.Sprintf("(RsOk %s %s %s %s %s %s)", cqList(items), cqBool(o.N), cqBool(o.W), cqBool(o.E), cqBool(o.F), cqZ(o.Version))
}

func randomScript(rng *Rng, name string) *Script {
	wins := windowCases()
	w := pick(rng, wins)
	s := &Script{Name: name, Desc: "desc " + name, Cite: "cite", Src: pick(rng, []string{"CABF_BR", "CABF_SMIME_BR", "CABF_CS_BR", "RFC5280", "Community", "Mozilla"}),
		Eff: w.eff, Ineff: w.ineff, Cfg: "none", App: "true", AppMsg: "applies exploded", Exe: "res", ExeMsg: "execute exploded"}
	if rng.Chance(5) {
		s.NewPanic = "constructor exploded"
	}
	switch rng.Intn(10) {
	case 0:
		s.Cfg = "ok"
	case 1:
		s.Cfg = "err"
	case 2:
		s.Cfg = "panic"
	}
	switch rng.Intn(8) {
	case 0:
		s.App = "false"
	case 1:
		s.App = "panic"
	}
	switch rng.Intn(14) {
	case 0:
		s.Exe = "nil"
	case 1:
		s.Exe = "panic"
	case 2:
		s.ExeStatus = pick(rng, []int{0, 8, 9, -1})
	default:
		s.ExeStatus = 1 + rng.Intn(7)
		if rng.Bool() {
			s.ExeDetails = pick(rng, []string{"x", "some details", "caf\xc3\xa9 \"q\"", "\xff\xfe"})
		}
	}
	return s
}

// stream "all": mock registries of every kind through Lint<Kind>Ex
func genAll(out *Output, rng *Rng, nRegs int) {
	seen := map[string]bool{}
	for n := 0; n < nRegs; n++ {
		kind := pick(rng, []string{"cert", "cert", "crl", "ocsp"})
		k := rng.Intn(7)
		if n < 6 {
			k = 0 // empty registries of each kind
		}
		reg := lint.VerifNewRegistry()
		var scripts []*Script
		prefix := []string{"e_", "w_", "n_"}
		used := map[string]bool{}
		for j := 0; j < k; j++ {
			name := fmt.Sprintf("%smock_%d", pick(rng, prefix), rng.Intn(12))
			if used[name] {
				continue
			}
			used[name] = true
			s := randomScript(rng, name)
			if kind != "cert" && (s.Exe == "nil" || s.Exe == "panic" || s.App == "panic" || s.Cfg == "panic" || s.NewPanic != "") && rng.Chance(70) {
				// keep most CRL/OCSP registries panic-free so that complete result sets are observed too
				s.Exe, s.App, s.NewPanic = "res", "true", ""
				if s.Cfg == "panic" {
					s.Cfg = "ok"
				}
				s.ExeStatus = 1 + rng.Intn(7)
			}
			scripts = append(scripts, s)
		}
		cfg, cfgText, err := configFor(scripts)
		if err != nil {
			panic(err)
		}
		reg.Registry().SetConfiguration(cfg)
		logs := make([][]int, len(scripts))
		for j, s := range scripts {
			var e error
			switch kind {
			case "cert":
				e = reg.RegisterCertificate(s.certLint(&logs[j]))
			case "crl":
				e = reg.RegisterRevocationList(s.crlLint(&logs[j]))
			case "ocsp":
				e = reg.RegisterOcspResponse(s.ocspLint(&logs[j]))
			}
			if e != nil {
				panic(e)
			}
		}
		for j, s := range scripts {
			s.armed = true
			logs[j] = nil
		}
		target := pick(rng, windowCases()).target
		c := scopeCertReused(rng.Bool(), rng.Bool(), rng.Bool(), target, rng.Bool())
		ao := absCert(c)
		ao.TU, ao.NU = target, target
		var o RsObs
		var nilRes bool
		switch kind {
		case "cert":
			o, nilRes = observeRS(func() *zlint.ResultSet { return zlint.LintCertificateEx(c, reg.Registry()) })
		case "crl":
			o, nilRes = observeRS(func() *zlint.ResultSet {
				return zlint.LintRevocationListEx(decoyCRL(target, int(target.Unix()&3)), reg.Registry())
			})
		case "ocsp":
			o, nilRes = observeRS(func() *zlint.ResultSet { return zlint.LintOcspResponseEx(decoyOCSP(target, int(target.Unix()&3)), reg.Registry()) })
		}
		_ = nilRes
		// direct (model-independent): whatever a certificate lint does - in its constructor, its configuration hook,
		// its applicability test or its body - no panic reaches the caller of certificate linting
		if kind == "cert" && strings.Contains(o.Panic, "exploded") { // a panic raised by a lint (scripted message), not the nil result of a contract-breaking mock
			out.Violate("C01|panic-reaches-caller:certificate", "LintCertificateEx let a panic reach the caller: "+o.Panic,
				map[string]interface{}{"kind": kind, "scripts": scripts, "config": cfgText}, "a result set with a fatal result for the panicking lint", o.Panic)
		}
		items := make([]string, len(scripts))
		for j, s := range scripts {
			items[j] = s.Coq()
		}
		term := fmt.Sprintf("(%s, %s, %s, %s)", kindCoq[kind], cqList(items), ao.Coq(), o.Coq())
		tag := fmt.Sprintf("%s/%d/%v/%v%v%v%v", kind, len(scripts), o.Panic != "", o.N, o.W, o.E, o.F)
		if !seen[term] {
			seen[term] = true
			out.Add("all", Case{Coq: term, Tag: tag, Desc: map[string]interface{}{"kind": kind, "scripts": scripts, "config": cfgText, "observed": o}})
		}
	}
}

func init() {
	commands["framework"] = func(args []string) error {
		out := NewOutput()
		rng := NewRng(seedFromEnv(), "framework")
		want := map[string]bool{}
		for _, a := range args {
			want[a] = true
		}
		thorough := tier() == "thorough"
		if want["product"] {
			lim := 5000
			if thorough {
				lim = 0
			}
			genProduct(out, rng, lim)
		}
		if want["window"] {
			n, stride := 400, 6
			if thorough {
				n, stride = 5000, 1
			}
			genWindow(out, rng, n, stride)
		}
		if want["real"] {
			n := 24
			if thorough {
				n = 200
			}
			genReal(out, rng, n, lint.NewEmptyConfig())
		}
		if want["boundary"] {
			n := 2
			if thorough {
				n = 12
			}
			genBoundary(out, rng, n, lint.NewEmptyConfig())
		}
		if want["scope"] {
			genScope(out, rng)
		}
		if want["monitor"] {
			genMonitor(out, rng)
		}
		if want["all"] {
			n := 300
			if thorough {
				n = 4000
			}
			genAll(out, rng, n)
		}
		return out.Emit()
	}
}

// reconcile: a body whose Details text is not a function of its input (C05's subject, e.g. text built from
// map iteration) returns different texts on the direct call and on the framework's call.  C04 says the
// framework reports what the body returned on *its* invocation, which is not separately observable; when the
// two texts differ the direct call is repeated and any run reproducing the framework's output is accepted.
func reconcile(s *Script, o Obs) {
	if s.execAgain == nil || s.Exe != "res" || o.Kind != "res" || s.App != "true" {
		return
	}
	if o.Status == s.ExeStatus && o.Details == s.ExeDetails {
		return
	}
	for i := 0; i < 40; i++ {
		d := s.execAgain()
		if d.Kind == "res" && d.Status == o.Status && d.Details == o.Details {
			s.ExeStatus, s.ExeDetails = d.Status, d.Details
			s.Nondet = true
			return
		}
	}
}

// realCRLVariants / realOCSPVariants: the corpus objects plus shallow copies whose deciding date is moved before and
// after every effective date, and whose non-deciding dates are removed or moved the other way (an OCSP response
// without nextUpdate is a legal, common object).
func realCRLVariants(corpus *Corpus) []CorpusCRL {
	out := append([]CorpusCRL{}, corpus.CRLs...)
	for i, cc := range corpus.CRLs {
		if i >= 6 {
			break
		}
		for j, t := range []time.Time{time.Date(1990, 1, 1, 0, 0, 0, 0, time.UTC), time.Date(2031, 1, 1, 0, 0, 0, 0, time.UTC), {}} {
			cp := *cc.CRL
			cp.ThisUpdate = t
			cp.NextUpdate = decoyDate(t, j)
			out = append(out, CorpusCRL{File: fmt.Sprintf("%s#thisUpdate=%s", cc.File, t.Format("2006-01-02")), CRL: &cp})
		}
	}
	return out
}

func realOCSPVariants(corpus *Corpus) []CorpusOCSP {
	out := append([]CorpusOCSP{}, corpus.OCSPs...)
	for _, cc := range corpus.OCSPs {
		for j, t := range []time.Time{{}, time.Date(1990, 1, 1, 0, 0, 0, 0, time.UTC), time.Date(2031, 1, 1, 0, 0, 0, 0, time.UTC)} {
			cp := *cc.Resp
			cp.NextUpdate = t
			if j > 0 {
				cp.ThisUpdate = decoyDate(t, 0)
				cp.ProducedAt = decoyDate(t, 0)
			}
			out = append(out, CorpusOCSP{File: fmt.Sprintf("%s#nextUpdate=%s", cc.File, t.Format("2006-01-02")), Resp: &cp})
		}
	}
	return out
}
