package main

import (
	"fmt"
	"time"

	"github.com/zmap/zcrypto/x509"
	"github.com/zmap/zlint/v3/lint"
	"github.com/zmap/zlint/v3/util"
)

// the seventeen general-name lints modelled in Kernels/GeneralNames.v, in the model's order
var gnLints = []string{"e_ext_san_directory_name_present", "e_ext_san_edi_party_name_present", "e_ext_san_other_name_present", "e_ext_san_registered_id_present",
	"e_ext_san_rfc822_name_present", "e_ext_san_uniform_resource_identifier_present", "e_ext_san_missing", "w_ext_san_critical_with_subject_dn", "e_ext_san_no_entries",
	"e_ext_ian_no_entries", "e_ext_ian_space_dns_name", "e_ext_san_not_critical_without_subject", "e_ian_bare_wildcard", "e_ian_dns_name_includes_null_char",
	"e_ian_dns_name_starts_with_period", "e_ian_wildcard_not_first", "w_ian_iana_pub_suffix_empty"}

func gnCase(c *x509.Certificate) (term, tag string, ok bool) {
	if c.NotBefore.Before(time.Date(2013, 1, 1, 0, 0, 0, 0, time.UTC)) || c.NotBefore.After(time.Date(2035, 1, 1, 0, 0, 0, 0, time.UTC)) {
		return "", "", false
	}
	sts := make([]string, len(gnLints))
	for i, n := range gnLints {
		l := lint.GlobalRegistry().CertificateLints().ByName(n)
		s := -3
		if l != nil {
			s = statusOrPanic(l.Execute(c, lint.NewEmptyConfig()))
		}
		sts[i] = cqZ(int64(s))
		tag += fmt.Sprint(s)
	}
	var sanVal, ianVal []byte
	sanCrit := false
	san := util.GetExtFromCert(c, util.SubjectAlternateNameOID)
	if san != nil {
		sanVal, sanCrit = san.Value, san.Critical
	}
	ian := util.GetExtFromCert(c, util.IssuerAlternateNameOID)
	if ian != nil {
		ianVal = ian.Value
	}
	present := []string{cqBool(c.DirectoryNames != nil), cqBool(c.EDIPartyNames != nil), cqBool(c.OtherNames != nil), cqBool(c.RegisteredIDs != nil), cqBool(c.EmailAddresses != nil), cqBool(c.URIs != nil)}
	dns := cqBytesList(c.IANDNSNames)
	if len(c.IANDNSNames) == 0 {
		dns = "(@nil bytes)"
	}
	view := fmt.Sprintf("(mkGview %s %s %s %s %s %s %s %s %s %s)", cqBool(util.IsServerAuthCert(c)), cqBool(c.IsCA), cqBool(len(c.Subject.Names) >= 1), cqBool(san != nil), cqBool(sanCrit),
		cqBytes(string(sanVal)), cqList(present), cqBool(ian != nil), cqBytes(string(ianVal)), dns)
	return fmt.Sprintf("(%s, %s)", view, cqList(sts)), tag, true
}
