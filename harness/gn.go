package main

import (
	"fmt"
	"time"

	"github.com/zmap/zcrypto/x509"
	"github.com/zmap/zlint/v3/lint"
	"github.com/zmap/zlint/v3/util"
)

// the seventeen general-name lints modelled in Kernels/GeneralNames.v, in the model's order
var gnLints = []string{"e_ext_san_directory_name_present", "e_ext_san_edi_party_name_present", "e_ext_san_other_name_present", "e_ext_san_registered_id_present",
	"e_ext_san_rfc822_name_present", "e_ext_san_uniform_resource_identifier_present", "e_ext_san_missing", "w_ext_san_critical_with_subject_dn", "e_ext_san_no_entries",
	"e_ext_ian_no_entries", "e_ext_ian_space_dns_name", "e_ext_san_not_critical_without_subject", "e_ian_bare_wildcard", "e_ian_dns_name_includes_null_char",
	"e_ian_dns_name_starts_with_period", "e_ian_wildcard_not_first", "w_ian_iana_pub_suffix_empty"}

func gnCase(c *x509.Certificate) (term, tag string, ok bool) {
	if c.NotBefore.Before(time.Date(2013, 1, 1, 0, 0, 0, 0, time.UTC)) || c.NotBefore.After(time.Date(2035, 1, 1, 0, 0, 0, 0, time.UTC)) {
		return "", "", false
	}
	sts := make([]string, len(gnLints))
	for i, n := range gnLints {
		l := lint.GlobalRegistry().CertificateLints().ByName(n)
		s := -3
		if l != nil {
			s = statusOrPanic(l.Execute(c, lint.NewEmptyConfig()))
		}
		sts[i] = cqZ(int64(s))
		if tag != "" {
			tag += "/"
		}
		tag += fmt.Sprint(s)
	}
	var sanVal, ianVal []byte
	sanCrit := false
	san := util.GetExtFromCert(c, util.SubjectAlternateNameOID)
	if san != nil {
		sanVal, sanCrit = san.Value, san.Critical
	}
	ian := util.GetExtFromCert(c, util.IssuerAlternateNameOID)
	if ian != nil {
		ianVal = ian.Value
	}
	present := []string{cqBool(c.DirectoryNames != nil), cqBool(c.EDIPartyNames != nil), cqBool(c.OtherNames != nil), cqBool(c.RegisteredIDs != nil), cqBool(c.EmailAddresses != nil), cqBool(c.URIs != nil)}
	dns := cqBytesList(c.IANDNSNames)
	if len(c.IANDNSNames) == 0 {
		dns = "(@nil bytes)"
	}
	view := fmt.Sprintf("(mkGview %s %s %s %s %s %s %s %s %s %s)", cqBool(util.IsServerAuthCert(c)), cqBool(c.IsCA), cqBool(len(c.Subject.Names) >= 1), cqBool(san != nil), cqBool(sanCrit),
		cqBytes(string(sanVal)), cqList(present), cqBool(ian != nil), cqBytes(string(ianVal)), dns)
	return fmt.Sprintf("(%s, %s)", view, cqList(sts)), tag, true
}

// the six raw-GeneralNames lints modelled in Kernels/GeneralNames.v (all_raw_lints), in the model's order
var rawLints = []string{"e_ext_san_dns_not_ia5_string", "e_ext_ian_dns_not_ia5_string", "e_ext_san_uri_not_ia5", "e_ext_ian_uri_not_ia5", "e_ext_san_empty_name", "e_ext_ian_empty_name"}

// rawNames parses a GeneralNames extension value with the harness's own TLV reader (not the lints' helper)
func rawNames(val []byte) (string, bool) {
	top, err := parseTLVs(val)
	if err != nil || len(top) != 1 || top[0].tag != 0x30 {
		return "", false
	}
	items, err := parseTLVs(top[0].content)
	if err != nil {
		return "", false
	}
	var l []string
	for _, it := range items {
		l = append(l, fmt.Sprintf("(%d, %s)", int(it.tag&0x1f), cqBytes(string(it.content))))
	}
	if len(l) == 0 {
		return "(@nil (Z * bytes))", true
	}
	return cqList(l), true
}

func gnRawCase(c *x509.Certificate) (term, tag string, ok bool) {
	if c.NotBefore.Before(time.Date(2013, 1, 1, 0, 0, 0, 0, time.UTC)) || c.NotBefore.After(time.Date(2035, 1, 1, 0, 0, 0, 0, time.UTC)) {
		return "", "", false
	}
	san := util.GetExtFromCert(c, util.SubjectAlternateNameOID)
	ian := util.GetExtFromCert(c, util.IssuerAlternateNameOID)
	sanL, ianL := "(@nil (Z * bytes))", "(@nil (Z * bytes))"
	if san != nil {
		if sanL, ok = rawNames(san.Value); !ok {
			return "", "", false
		}
	}
	if ian != nil {
		if ianL, ok = rawNames(ian.Value); !ok {
			return "", "", false
		}
	}
	sts := make([]string, len(rawLints))
	for i, n := range rawLints {
		s := -3
		if l := lint.GlobalRegistry().CertificateLints().ByName(n); l != nil {
			s = statusOrPanic(l.Execute(c, lint.NewEmptyConfig()))
		}
		sts[i] = cqZ(int64(s))
		if tag != "" {
			tag += "/"
		}
		tag += fmt.Sprint(s)
	}
	return fmt.Sprintf("(mkRview %s %s %s %s, %s)", cqBool(san != nil), sanL, cqBool(ian != nil), ianL, cqList(sts)), tag, true
}
