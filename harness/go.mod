module verifharness

go 1.23.0

require (
	github.com/pelletier/go-toml v1.9.5
	github.com/zmap/zcrypto v0.0.0-20250129210703-03c45d0bae98
	github.com/zmap/zlint/v3 v3.0.0
	golang.org/x/crypto v0.36.0
	golang.org/x/net v0.38.0
	golang.org/x/tools v0.29.0
)

require (
	github.com/weppos/publicsuffix-go v0.40.3-0.20250127173806-e489a31678ca // indirect
	golang.org/x/mod v0.22.0 // indirect
	golang.org/x/sync v0.12.0 // indirect
	golang.org/x/text v0.23.0 // indirect
)

replace github.com/zmap/zlint/v3 => /repo/v3

replace golang.org/x/sync => golang.org/x/sync v0.10.0
