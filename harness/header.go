package main

import (
	"fmt"
	"math/big"

	"github.com/zmap/zcrypto/x509"
	"github.com/zmap/zlint/v3/lint"
)

var headerLintNames = []string{"e_serial_number_longer_than_20_octets", "e_serial_number_not_positive", "e_sub_cert_or_sub_ca_using_sha1", "e_cert_contains_unique_identifier",
	"e_cert_unique_identifier_version_not_2_or_3", "e_cert_extensions_version_not_3", "e_invalid_certificate_version"}

// headerCase: one correspondence case for Kernels/Header.v - serial number, version, whether the signature algorithm is
// one of the three SHA-1 ones, whether a unique identifier is present, the number of extensions - and what the seven
// bodies return (direct Execute under recover).
func headerCase(c *x509.Certificate) (string, string, bool) {
	if c.SerialNumber == nil {
		return "", "", false
	}
	var sts []string
	tag := ""
	for _, n := range headerLintNames {
		st := 0
		if l := lint.GlobalRegistry().CertificateLints().ByName(n); l != nil {
			func() {
				defer func() {
					if recover() != nil {
						st = -1
					}
				}()
				if r := l.Lint().Execute(c); r == nil {
					st = -2
				} else {
					st = int(r.Status)
				}
			}()
		}
		sts = append(sts, cqZ(int64(st)))
		tag += fmt.Sprintf("%d/", st)
	}
	sha1 := c.SignatureAlgorithm == x509.SHA1WithRSA || c.SignatureAlgorithm == x509.DSAWithSHA1 || c.SignatureAlgorithm == x509.ECDSAWithSHA1
	uid := c.IssuerUniqueId.Bytes != nil || c.SubjectUniqueId.Bytes != nil
	return fmt.Sprintf("(mkHeader %s %s %s %s %d, %s)", cqZs(c.SerialNumber.String()), cqZ(int64(c.Version)), cqBool(sha1), cqBool(uid), len(c.Extensions), cqList(sts)), tag[:len(tag)-1], true
}

// headerProbes: bare certificate values around every threshold of the seven lints (the bodies read only these fields):
// serial numbers 0, +-1, +-(2^k - 1), +-2^k, +-(2^k + 1) for k around 7, 8, 151..168, versions 0..4, with and without
// unique identifiers, extensions and a SHA-1 signature algorithm.
func headerProbes() []*x509.Certificate {
	var out []*x509.Certificate
	one := big.NewInt(1)
	var serials []*big.Int
	serials = append(serials, big.NewInt(0), big.NewInt(1), big.NewInt(-1), big.NewInt(127), big.NewInt(128), big.NewInt(-128), big.NewInt(-129), big.NewInt(255), big.NewInt(256))
	for _, k := range []uint{151, 152, 158, 159, 160, 161, 167, 168} {
		p := new(big.Int).Lsh(one, k)
		for _, d := range []int64{-1, 0, 1} {
			v := new(big.Int).Add(p, big.NewInt(d))
			serials = append(serials, v, new(big.Int).Neg(v))
		}
	}
	i := 0
	for _, s := range serials {
		for _, ver := range []int{3, 1, 2, 0, 4} {
			if ver != 3 && i%3 != 0 {
				i++
				continue
			}
			i++
			c := &x509.Certificate{SerialNumber: s, Version: ver, SignatureAlgorithm: x509.SHA256WithRSA}
			if i%4 == 1 {
				c.SignatureAlgorithm = []x509.SignatureAlgorithm{x509.SHA1WithRSA, x509.DSAWithSHA1, x509.ECDSAWithSHA1, x509.MD5WithRSA}[i%4]
			}
			if i%5 == 2 {
				c.IssuerUniqueId.Bytes = []byte{1}
			}
			if i%7 == 3 {
				c.SubjectUniqueId.Bytes = []byte{}
			}
			if i%2 == 0 {
				c.Extensions = append(c.Extensions, pkixExtension())
			}
			out = append(out, c)
		}
	}
	return out
}

// headerKey: what the seven lints can tell apart (used to keep one case per class of the zoo's thousands of serials)
func headerKey(c *x509.Certificate) string {
	if c.SerialNumber == nil {
		return ""
	}
	sha1 := c.SignatureAlgorithm == x509.SHA1WithRSA || c.SignatureAlgorithm == x509.DSAWithSHA1 || c.SignatureAlgorithm == x509.ECDSAWithSHA1
	return fmt.Sprintf("%d/%d/%d/%v/%v/%v", c.SerialNumber.BitLen(), c.SerialNumber.Sign(), c.Version, sha1, c.IssuerUniqueId.Bytes != nil || c.SubjectUniqueId.Bytes != nil, len(c.Extensions) == 0)
}
