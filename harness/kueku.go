package main

import (
	"fmt"
	"sort"

	"github.com/zmap/zcrypto/x509"
	"github.com/zmap/zlint/v3/lints/rfc"
	"github.com/zmap/zlint/v3/util"
)

// e_key_usage_and_extended_key_usage_inconsistent against its full model (Kernels/KuEku.v): the table is dumped from
// the running build (hook), the cases are the (extended key usages, key usage) pairs of the zoo
func kuEkuTableCoq() string {
	t := rfc.VerifEKUTable()
	var es []int
	for e := range t {
		es = append(es, int(e))
	}
	sort.Ints(es)
	var rows []string
	for _, e := range es {
		var ks []int
		for k := range t[x509.ExtKeyUsage(e)] {
			ks = append(ks, int(k))
		}
		sort.Ints(ks)
		var kz []string
		for _, k := range ks {
			kz = append(kz, fmt.Sprint(k))
		}
		rows = append(rows, fmt.Sprintf("(%d, %s)", e, cqList(kz)))
	}
	return cqList(rows)
}

func kuEkuCase(c *x509.Certificate) (term, tag string, ok bool) {
	if !(util.IsSubscriberCert(c) && util.IsExtInCert(c, util.EkuSynOid) && util.IsExtInCert(c, util.KeyUsageOID)) {
		return "", "", false
	}
	st := runCertLint("e_key_usage_and_extended_key_usage_inconsistent", c)
	if st == 2 {
		return "", "", false // dated before the lint's effective date: the rule body did not run
	}
	var es []string
	for _, e := range c.ExtKeyUsage {
		es = append(es, fmt.Sprint(int(e)))
	}
	lst := cqList(es)
	if len(es) == 0 {
		lst = "(@nil Z)"
	}
	return fmt.Sprintf("(%s, %d, %s)", lst, int(c.KeyUsage), cqZ(int64(st))), fmt.Sprintf("%d/%d", len(es), st), true
}
