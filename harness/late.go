package main

import (
	"bytes"
	"fmt"
	"regexp"

	"github.com/zmap/zlint/v3"
	"github.com/zmap/zlint/v3/lint"
)

var lateDone = false

// lateRegistrationPrelude exercises the registry the way a long-running embedding program does before the checks
// start: the registry is used (Names, Sources, WriteJSON, Filter by name and by source, linting), and only then one more
// lint of each kind is registered through the public Register* API - OCSP last.  Anything cached at first use that is
// not refreshed by a later registration of every kind becomes visible to the checks that follow.
func lateRegistrationPrelude() []string {
	if lateDone {
		return nil
	}
	lateDone = true
	g := lint.GlobalRegistry()
	names := g.Names()
	_ = g.Sources()
	var b bytes.Buffer
	g.WriteJSON(&b)
	g.Filter(lint.FilterOptions{IncludeNames: []string{names[0]}})
	g.Filter(lint.FilterOptions{IncludeSources: lint.SourceList{lint.RFC5280}})
	corpus := loadCorpus()
	if len(corpus.Certs) > 0 {
		zlint.LintCertificate(corpus.Certs[0].Cert)
	}
	if len(corpus.CRLs) > 0 {
		zlint.LintRevocationList(corpus.CRLs[0].CRL)
	}
	if len(corpus.OCSPs) > 0 {
		zlint.LintOcspResponse(corpus.OCSPs[0].Resp)
	}
	var added []string
	order := []string{"cert", "crl", "ocsp"}
	rot := int(seedFromEnv() % 3)
	order = append(order[rot+1:], order[:rot+1]...) // seed 0 registers the OCSP lint last
	srcOf := map[string]string{"cert": "Community", "crl": "RFC5280", "ocsp": "RFC6960"}
	for _, k := range order {
		nm := fmt.Sprintf("n_verif_late_%s", k)
		sc := &Script{Name: nm, Desc: "registered after first use (verification harness)", Cite: "none", Src: srcOf[k], Cfg: "none", App: "false", Exe: "res", ExeStatus: 3}
		lg := []int{}
		switch k {
		case "cert":
			lint.RegisterCertificateLint(sc.certLint(&lg))
		case "crl":
			lint.RegisterRevocationListLint(sc.crlLint(&lg))
		case "ocsp":
			lint.RegisterOcspResponseLint(sc.ocspLint(&lg))
		}
		added = append(added, nm)
		// every view of the registry must show the new lint straight away, whatever was cached before
		note := func(cat, what string) {
			lateProblems[cat] = append(lateProblems[cat], fmt.Sprintf("after use of the registry, a %s lint %s was registered: %s", k, nm, what))
		}
		if !contains(g.Names(), nm) {
			note("names", "Names() does not list it")
		}
		found := false
		switch k {
		case "cert":
			found = g.CertificateLints().ByName(nm) != nil && g.ByName(nm) != nil
		case "crl":
			found = g.RevocationListLints().ByName(nm) != nil
		case "ocsp":
			found = g.OcspResponseLints().ByName(nm) != nil
		}
		if !found {
			note("byname", "the by-name lookup of its kind does not find it")
		}
		hasSrc := false
		for _, s := range g.Sources() {
			if string(s) == srcOf[k] {
				hasSrc = true
			}
		}
		if !hasSrc {
			note("sources", "Sources() does not list its source "+srcOf[k])
		}
		b.Reset()
		g.WriteJSON(&b)
		if !bytes.Contains(b.Bytes(), []byte(`"`+nm+`"`)) {
			note("json", "WriteJSON does not list it")
		}
		for what, opts := range map[string]lint.FilterOptions{
			"IncludeNames naming it":     {IncludeNames: []string{nm}},
			"IncludeSources of its own":  {IncludeSources: lint.SourceList{lint.LintSource(srcOf[k])}},
			"an unrelated ExcludeNames":  {ExcludeNames: []string{names[0]}},
			"an unrelated ExcludeSource": {ExcludeSources: lint.SourceList{lint.MozillaRootStorePolicy}},
		} {
			fr, err := g.Filter(opts)
			if err != nil || fr == nil || !contains(fr.Names(), nm) {
				note("filter", "Filter with "+what+" does not select it")
			}
		}
		nf := lint.FilterOptions{}
		nf.NameFilter = regexpMust("verif_late")
		if fr, err := g.Filter(nf); err != nil || !contains(fr.Names(), nm) {
			note("filter", "Filter with a matching NameFilter does not select it")
		}
	}
	return added
}

var lateProblems = map[string][]string{}

func reportLate(out *Output, pid string, cats ...string) {
	for _, c := range cats {
		for i, p := range lateProblems[c] {
			out.Violate(fmt.Sprintf("%s|late-%s-%d", pid, c, i), p, p, nil, nil)
		}
	}
}

func regexpMust(s string) *regexp.Regexp { return regexp.MustCompile(s) }
