package main

import (
	"go/ast"
	"go/parser"
	"go/token"
	"os"
	"path/filepath"
	"sort"
	"strings"
)

// loop shapes (go/ast, regenerated each run): for every Execute / CheckApplies method in the lint packages, the
// `for ... range` loops whose subject mentions a list-valued field of the linted object, with the set of result
// statuses returned from inside the loop body.  A loop that can leave with two different statuses (say NA for an
// element it cannot parse and error for one that offends) makes the verdict depend on the order of the list.
type LoopShape struct {
	File     string
	Func     string
	Fields   []string
	Statuses []string
	Line     int
}

func returnStatus(e ast.Expr) string {
	if u, ok := e.(*ast.UnaryExpr); ok {
		e = u.X
	}
	cl, ok := e.(*ast.CompositeLit)
	if !ok {
		if id, ok := e.(*ast.Ident); ok && (id.Name == "true" || id.Name == "false") {
			return id.Name
		}
		return "?"
	}
	for _, el := range cl.Elts {
		if kv, ok := el.(*ast.KeyValueExpr); ok {
			if k, ok := kv.Key.(*ast.Ident); ok && k.Name == "Status" {
				if s, ok := kv.Value.(*ast.SelectorExpr); ok {
					return s.Sel.Name
				}
				return "?"
			}
		}
	}
	return "?"
}

func loopShapes() ([]LoopShape, error) {
	var out []LoopShape
	fset := token.NewFileSet()
	root := filepath.Join(repoDir(), "v3", "lints")
	err := filepath.Walk(root, func(p string, info os.FileInfo, err error) error {
		if err != nil || info.IsDir() || !strings.HasSuffix(p, ".go") || strings.HasSuffix(p, "_test.go") {
			return err
		}
		f, err := parser.ParseFile(fset, p, nil, 0)
		if err != nil {
			return err
		}
		rel, _ := filepath.Rel(root, p)
		for _, d := range f.Decls {
			fd, ok := d.(*ast.FuncDecl)
			if !ok || fd.Body == nil {
				continue
			}
			ast.Inspect(fd.Body, func(n ast.Node) bool {
				rs, ok := n.(*ast.RangeStmt)
				if !ok {
					return true
				}
				fields := map[string]bool{}
				ast.Inspect(rs.X, func(m ast.Node) bool {
					if s, ok := m.(*ast.SelectorExpr); ok {
						fields[s.Sel.Name] = true
					}
					return true
				})
				sts := map[string]bool{}
				ast.Inspect(rs.Body, func(m ast.Node) bool {
					if _, ok := m.(*ast.FuncLit); ok {
						return false
					}
					if r, ok := m.(*ast.ReturnStmt); ok && len(r.Results) == 1 {
						sts[returnStatus(r.Results[0])] = true
					}
					return true
				})
				if len(sts) >= 2 {
					out = append(out, LoopShape{rel, fd.Name.Name, sortedKeys(fields), sortedKeys(sts), fset.Position(rs.Pos()).Line})
				}
				return true
			})
		}
		return nil
	})
	sort.Slice(out, func(i, j int) bool { return out[i].File+out[i].Func < out[j].File+out[j].Func })
	return out, err
}
