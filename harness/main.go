package main

import (
	"fmt"
	"os"
)

type cmdFn func(args []string) error

var commands = map[string]cmdFn{}

func main() {
	if len(os.Args) < 2 {
		fmt.Fprintln(os.Stderr, "usage: harness <cmd> [args]")
		os.Exit(2)
	}
	f, ok := commands[os.Args[1]]
	if !ok {
		fmt.Fprintln(os.Stderr, "unknown command", os.Args[1])
		os.Exit(2)
	}
	startStallDetector()
	if err := f(os.Args[2:]); err != nil {
		fmt.Fprintln(os.Stderr, "harness error:", err)
		os.Exit(3)
	}
}
