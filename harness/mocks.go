package main

import (
	"fmt"
	"math/big"
	"strings"
	"time"

	"github.com/pelletier/go-toml"
	"github.com/zmap/zcrypto/x509"
	"github.com/zmap/zlint/v3/lint"
	"github.com/zmap/zlint/v3/util"
	"golang.org/x/crypto/ocsp"
)

// ---------- instants ----------

// instantZ renders a time.Time as nanoseconds since the Unix epoch (exact, also for year 0/1).
func instantZ(t time.Time) string {
	s := big.NewInt(t.Unix())
	s.Mul(s, big.NewInt(1000000000))
	s.Add(s, big.NewInt(int64(t.Nanosecond())))
	return "(" + s.String() + ")%Z"
}

// ---------- scripts: the abstract case shared with Coq (Framework/Script.v) ----------

const (
	evNew = iota
	evConfigure
	evApplies
	evExecute
)

type Script struct {
	Name, Desc, Cite, Src string
	Eff, Ineff            time.Time
	NewPanic              string // "" = constructor returns normally
	Cfg                   string // none | ok | err | panic
	CfgMsg                string // raw decoder error / panic text
	App                   string // true | false | panic
	AppMsg                string
	Exe                   string // res | nil | panic
	ExeStatus             int
	ExeDetails            string
	ExeMsg                string
	Nondet                bool
	ShowConf              bool // Execute reports the configured option (C11)
	Stateful              bool // the instance accumulates state across Execute calls and reports it (C04: fresh instance per run)
	execAgain             func() Obs
	armed                 bool // constructor panics only once armed (registration calls it for its nil check)
}

func (s *Script) Coq() string {
	nw := "NewOk"
	if s.NewPanic != "" {
		nw = "(NewPanic " + cqBytes(s.NewPanic) + ")"
	}
	cfg := map[string]string{"none": "CfgNone", "ok": "CfgOk"}[s.Cfg]
	if s.Cfg == "err" {
		cfg = "(CfgErr " + cqBytes(s.CfgMsg) + ")"
	} else if s.Cfg == "panic" {
		cfg = "(CfgPanic " + cqBytes(s.CfgMsg) + ")"
	}
	app := map[string]string{"true": "AppTrue", "false": "AppFalse"}[s.App]
	if s.App == "panic" {
		app = "(AppPanic " + cqBytes(s.AppMsg) + ")"
	}
	var exe string
	switch s.Exe {
	case "res":
		exe = fmt.Sprintf("(ExeRes %s %s)", cqZ(int64(s.ExeStatus)), cqBytes(s.ExeDetails))
	case "nil":
		exe = "ExeNil"
	default:
		exe = "(ExePanic " + cqBytes(s.ExeMsg) + ")"
	}
	return fmt.Sprintf("(mkScript (mkMeta %s %s %s %s %s %s) %s %s %s %s)",
		cqBytes(s.Name), cqBytes(s.Desc), cqBytes(s.Cite), cqBytes(s.Src), instantZ(s.Eff), instantZ(s.Ineff), nw, cfg, app, exe)
}

func (s *Script) meta() lint.LintMetadata {
	return lint.LintMetadata{Name: s.Name, Description: s.Desc, Citation: s.Cite, Source: lint.LintSource(s.Src),
		EffectiveDate: s.Eff, IneffectiveDate: s.Ineff}
}

type mockConf struct {
	A int
	B int // set to 7 by every constructor and never by a generated configuration: a section that does not mention it must leave it alone
}

type mockCore struct {
	s     *Script
	log   *[]int
	conf  mockConf
	calls int // per-instance state: a fresh instance always reports 1
}

func (m *mockCore) applies() bool {
	*m.log = append(*m.log, evApplies)
	switch m.s.App {
	case "true":
		return true
	case "false":
		return false
	}
	panic(m.s.AppMsg)
}

func (m *mockCore) execute() *lint.LintResult {
	*m.log = append(*m.log, evExecute)
	m.calls++
	if m.s.Stateful && m.calls != 1 {
		return &lint.LintResult{Status: lint.Fatal, Details: fmt.Sprintf("instance reused: Execute call number %d on this instance", m.calls)}
	}
	if m.conf.B != 7 {
		return &lint.LintResult{Status: lint.Fatal, Details: fmt.Sprintf("option B lost its constructor default 7: it is %d after configuration", m.conf.B)}
	}
	if m.s.ShowConf && m.conf.A != 0 {
		return &lint.LintResult{Status: lint.Notice, Details: fmt.Sprintf("A=%d", m.conf.A)}
	}
	switch m.s.Exe {
	case "res":
		return &lint.LintResult{Status: lint.LintStatus(m.s.ExeStatus), Details: m.s.ExeDetails}
	case "nil":
		return nil
	}
	panic(m.s.ExeMsg)
}

type mockCert struct{ mockCore }

func (m *mockCert) CheckApplies(c *x509.Certificate) bool     { return m.applies() }
func (m *mockCert) Execute(c *x509.Certificate) *lint.LintResult { return m.execute() }

type mockCertCfg struct{ mockCert }

func (m *mockCertCfg) Configure() interface{} {
	*m.log = append(*m.log, evConfigure)
	return &m.conf
}

type mockCrl struct{ mockCore }

func (m *mockCrl) CheckApplies(c *x509.RevocationList) bool     { return m.applies() }
func (m *mockCrl) Execute(c *x509.RevocationList) *lint.LintResult { return m.execute() }

type mockCrlCfg struct{ mockCrl }

func (m *mockCrlCfg) Configure() interface{} {
	*m.log = append(*m.log, evConfigure)
	return &m.conf
}

type mockOcsp struct{ mockCore }

func (m *mockOcsp) CheckApplies(c *ocsp.Response) bool     { return m.applies() }
func (m *mockOcsp) Execute(c *ocsp.Response) *lint.LintResult { return m.execute() }

type mockOcspCfg struct{ mockOcsp }

func (m *mockOcspCfg) Configure() interface{} {
	*m.log = append(*m.log, evConfigure)
	return &m.conf
}

func (s *Script) certLint(log *[]int) *lint.CertificateLint {
	return &lint.CertificateLint{LintMetadata: s.meta(), Lint: func() lint.CertificateLintInterface {
		*log = append(*log, evNew)
		if s.NewPanic != "" && s.armed {
			panic(s.NewPanic)
		}
		if s.Cfg == "none" {
			return &mockCert{mockCore{s: s, log: log, conf: mockConf{B: 7}}}
		}
		return &mockCertCfg{mockCert{mockCore{s: s, log: log, conf: mockConf{B: 7}}}}
	}}
}

func (s *Script) crlLint(log *[]int) *lint.RevocationListLint {
	return &lint.RevocationListLint{LintMetadata: s.meta(), Lint: func() lint.RevocationListLintInterface {
		*log = append(*log, evNew)
		if s.NewPanic != "" && s.armed {
			panic(s.NewPanic)
		}
		if s.Cfg == "none" {
			return &mockCrl{mockCore{s: s, log: log, conf: mockConf{B: 7}}}
		}
		return &mockCrlCfg{mockCrl{mockCore{s: s, log: log, conf: mockConf{B: 7}}}}
	}}
}

func (s *Script) ocspLint(log *[]int) *lint.OcspResponseLint {
	return &lint.OcspResponseLint{LintMetadata: s.meta(), Lint: func() lint.OcspResponseLintInterface {
		*log = append(*log, evNew)
		if s.NewPanic != "" && s.armed {
			panic(s.NewPanic)
		}
		if s.Cfg == "none" {
			return &mockOcsp{mockCore{s: s, log: log, conf: mockConf{B: 7}}}
		}
		return &mockOcspCfg{mockOcsp{mockCore{s: s, log: log, conf: mockConf{B: 7}}}}
	}}
}

// configFor builds a TOML document realising the configuration outcome of every script, and fills in
// the raw messages by asking the decoder (go-toml) and the configuration layer directly.
func configFor(scripts []*Script) (lint.Configuration, string, error) {
	var scalars, tables []string
	for _, s := range scripts {
		switch s.Cfg {
		case "ok":
			tables = append(tables, fmt.Sprintf("[%s]\nA = 5\n", s.Name))
		case "err":
			tables = append(tables, fmt.Sprintf("[%s]\nA = \"not a number\"\n", s.Name))
		case "panic":
			scalars = append(scalars, fmt.Sprintf("%s = 5\n", s.Name))
		}
	}
	text := strings.Join(scalars, "") + strings.Join(tables, "")
	cfg, err := lint.NewConfigFromString(text)
	if err != nil {
		return cfg, text, err
	}
	tree, _ := toml.Load(text)
	for _, s := range scripts {
		if s.Cfg == "err" || s.Cfg == "panic" {
			classifyConfig(s, cfg, tree)
		}
	}
	return cfg, text, nil
}

// classifyConfig decides, by direct calls, whether configuring this lint yields an error or a panic today.
func classifyConfig(s *Script, cfg lint.Configuration, tree *toml.Tree) {
	var perr error
	var pval interface{}
	func() {
		defer func() { pval = recover() }()
		perr = cfg.Configure(&mockConf{}, s.Name)
	}()
	if pval != nil {
		s.Cfg, s.CfgMsg = "panic", fmt.Sprintf("%v", pval)
		return
	}
	if perr == nil {
		s.Cfg = "ok"
		return
	}
	s.Cfg = "err"
	// raw decoder message, independently of zlint's wrapper where go-toml can provide it
	if sub, ok := tree.Get(s.Name).(*toml.Tree); ok {
		if e := sub.Unmarshal(&mockConf{}); e != nil {
			s.CfgMsg = e.Error()
			return
		}
	}
	msg := perr.Error()
	if i := strings.LastIndex(msg, "`zlint -exampleConfig`. Error: "); i >= 0 {
		s.CfgMsg = msg[i+len("`zlint -exampleConfig`. Error: "):]
	} else {
		s.CfgMsg = msg
	}
}

// ---------- abstract objects ----------

type AbsObj struct {
	SA, EM, CS       bool
	NB, TU, NU       time.Time
}

func (o AbsObj) Coq() string {
	return fmt.Sprintf("(mkObj %s %s %s %s %s %s)", cqBool(o.SA), cqBool(o.EM), cqBool(o.CS), instantZ(o.NB), instantZ(o.TU), instantZ(o.NU))
}

func absCert(c *x509.Certificate) AbsObj {
	return AbsObj{SA: util.IsServerAuthCert(c), EM: util.IsEmailProtectionCert(c), CS: util.IsCodeSigning(c.PolicyIdentifiers), NB: c.NotBefore}
}

// ---------- observations ----------

type Obs struct {
	Kind    string // res | nil | panic
	Status  int
	Details string
	Msg     string
}

func (o Obs) Coq() string {
	switch o.Kind {
	case "res":
		return fmt.Sprintf("(ObsRes %s %s)", cqZ(int64(o.Status)), cqBytes(o.Details))
	case "nil":
		return "ObsNil"
	}
	return "(ObsPanic " + cqBytes(o.Msg) + ")"
}

func observe(f func() *lint.LintResult) (o Obs) {
	tick()
	defer func() {
		if r := recover(); r != nil {
			o = Obs{Kind: "panic", Msg: fmt.Sprintf("%v", r)}
		}
	}()
	r := f()
	if r == nil {
		return Obs{Kind: "nil"}
	}
	return Obs{Kind: "res", Status: int(r.Status), Details: r.Details}
}

func cqLog(log []int) string {
	if len(log) == 0 {
		return "[]"
	}
	parts := make([]string, len(log))
	for i, e := range log {
		parts[i] = fmt.Sprint(e)
	}
	return "[" + strings.Join(parts, ";") + "]%N"
}

var kindCoq = map[string]string{"cert": "KCert", "crl": "KCrl", "ocsp": "KOcsp"}
