package main

import (
	"sync"
	"fmt"
	"time"

	"github.com/zmap/zcrypto/x509"
	"github.com/zmap/zcrypto/x509/ct"
	"github.com/zmap/zlint/v3"
	"github.com/zmap/zlint/v3/lint"
)

// Direct, model-independent monitors of what C03/C04 state, evaluated on the implementation's observed
// behaviour for one (script, object) run.  They decide whether a correspondence break is also a concrete
// violation of the property itself.

func inWindowSpec(eff, ineff, t time.Time) bool {
	return (eff.IsZero() || !t.Before(eff)) && (ineff.IsZero() || t.Before(ineff))
}

func hasEv(log []int, e int) bool {
	for _, x := range log {
		if x == e {
			return true
		}
	}
	return false
}

func scopeOK(kind, src string, ao AbsObj) bool {
	if kind != "cert" {
		return true
	}
	switch src {
	case "CABF_BR":
		return ao.SA
	case "CABF_SMIME_BR":
		return ao.EM
	case "CABF_CS_BR":
		return ao.CS
	}
	return true
}

// monitorRun returns (property, key, what) triples. logKnown=false for real lints (no call log).
func monitorRun(kind string, s *Script, ao AbsObj, target time.Time, o Obs, log []int, logKnown bool) [][3]string {
	var v [][3]string
	inWin := inWindowSpec(s.Eff, s.Ineff, target)
	scoped := scopeOK(kind, s.Src, ao)
	id := fmt.Sprintf("%s:%s", kind, s.Name)
	// C03: outside the window never pass/info/warn/error, and the body is not run
	if !inWin {
		if o.Kind == "res" && o.Status >= 3 && o.Status <= 6 {
			v = append(v, [3]string{"C03", "finding-outside-window:" + id, fmt.Sprintf("status %d reported for an object dated outside the effective window", o.Status)})
		}
		if logKnown && hasEv(log, evExecute) {
			v = append(v, [3]string{"C03", "body-run-outside-window:" + id, "rule body executed for an object dated outside the effective window"})
		}
	}
	// C04: scope gate
	if !scoped {
		if !(o.Kind == "res" && o.Status == 1 && o.Details == "") {
			v = append(v, [3]string{"C04", "out-of-scope-not-NA:" + id, fmt.Sprintf("out-of-scope certificate got %+v instead of NA", o)})
		}
		if logKnown && len(log) != 0 {
			v = append(v, [3]string{"C04", "out-of-scope-ran:" + id, "lint code ran for an out-of-scope certificate"})
		}
		return v
	}
	configured := s.NewPanic == "" && (s.Cfg == "none" || s.Cfg == "ok")
	if configured && s.App == "false" {
		if !(o.Kind == "res" && o.Status == 1) {
			v = append(v, [3]string{"C04", "inapplicable-not-NA:" + id, fmt.Sprintf("inapplicable object got %+v instead of NA", o)})
		}
		if logKnown && hasEv(log, evExecute) {
			v = append(v, [3]string{"C04", "inapplicable-ran:" + id, "rule body executed for an inapplicable object"})
		}
	}
	if configured && s.App == "true" && inWin {
		switch s.Exe {
		case "res":
			if !(o.Kind == "res" && o.Status == s.ExeStatus && o.Details == s.ExeDetails) {
				v = append(v, [3]string{"C04", "verdict-altered:" + id, fmt.Sprintf("body returned (%d,%q) but the framework reported %+v", s.ExeStatus, s.ExeDetails, o)})
			}
		case "nil":
			if o.Kind != "nil" {
				v = append(v, [3]string{"C04", "verdict-altered:" + id, fmt.Sprintf("body returned nil but the framework reported %+v", o)})
			}
		case "panic":
			if kind == "cert" {
				want := fmt.Sprintf("'%s' panicked. Error: %s", s.Name, s.ExeMsg)
				if !(o.Kind == "res" && o.Status == 7 && o.Details == want) {
					v = append(v, [3]string{"C04", "panic-not-recovered:" + id, fmt.Sprintf("body panic reported as %+v", o)})
				}
			} else if o.Kind != "panic" {
				v = append(v, [3]string{"C04", "verdict-altered:" + id, fmt.Sprintf("body panic reported as %+v", o)})
			}
		}
	}
	return v
}

func addMonitor(out *Output, vs [][3]string, input interface{}) {
	for _, t := range vs {
		out.Violate(t[0]+"|"+t[1], t[2], input, nil, nil)
	}
}

// stream "boundary": every registered lint at one second before / at / after each of its own dates, on
// corpus objects re-dated in the parsed structure (applicability recomputed by direct call)
func genBoundary(out *Output, rng *Rng, perLint int, cfg lint.Configuration) {
	corpus := loadCorpus()
	g := lint.GlobalRegistry()
	seen := map[string]bool{}
	n, outside, inside := 0, 0, 0
	for _, l := range g.CertificateLints().Lints() {
		l := l
		var dates []time.Time
		if !l.EffectiveDate.IsZero() {
			dates = append(dates, l.EffectiveDate)
		}
		if !l.IneffectiveDate.IsZero() {
			dates = append(dates, l.IneffectiveDate)
		}
		if len(dates) == 0 {
			continue
		}
		// prefer objects on which the lint applies (so that the window decides)
		var pool []CorpusCert
		start := rng.Intn(len(corpus.Certs))
		for k := 0; k < len(corpus.Certs) && len(pool) < perLint; k++ {
			cc := corpus.Certs[(start+k)%len(corpus.Certs)]
			ok := false
			func() {
				defer func() { recover() }()
				ok = scopeOK("cert", string(l.Source), absCert(cc.Cert)) && l.Lint().CheckApplies(cc.Cert)
			}()
			if ok {
				pool = append(pool, cc)
			}
		}
		for _, cc := range pool {
			type redate struct {
				d  time.Time
				dl time.Duration
			}
			var rds []redate
			for _, d := range dates {
				for _, dl := range []time.Duration{-time.Second, 0, time.Second} {
					rds = append(rds, redate{d, dl})
				}
			}
			// far outside every window, in both directions (GeneralizedTime allows years 0000-9999)
			for _, x := range []time.Time{time.Date(1500, 1, 1, 0, 0, 0, 0, time.UTC), time.Date(1601, 1, 1, 0, 0, 0, 0, time.UTC), time.Date(2300, 1, 1, 0, 0, 0, 0, time.UTC), time.Date(2846, 1, 1, 0, 0, 0, 0, time.UTC)} {
				rds = append(rds, redate{x, 0})
			}
			for _, rd := range rds {
				// decoy: every other time the object carries (notAfter, embedded SCT timestamps) sits on the other side
				// of the date, within hours of notBefore - only notBefore may decide
				for _, decoy := range []bool{false, true} {
					d, dl := rd.d, rd.dl
					if decoy && (d.Year() < 1971 || d.Year() > 2200) {
						continue
					}
					c2 := *cc.Cert
					c2.NotBefore = d.Add(dl)
					if decoy {
						other := d.Add(time.Hour)
						if dl >= 0 {
							other = d.Add(-time.Hour)
						}
						c2.NotAfter = other
						c2.SignedCertificateTimestampList = []*ct.SignedCertificateTimestamp{{Timestamp: uint64(other.UnixMilli())}, {Timestamp: uint64(other.Add(time.Minute).UnixMilli())}}
					}
					c := &c2
					s := abstractReal(l.Name, string(l.Source), l.EffectiveDate, l.IneffectiveDate,
						func() interface{} { return l.Lint() }, cfg,
						func(i interface{}) bool { return i.(lint.CertificateLintInterface).CheckApplies(c) },
						func(i interface{}) *lint.LintResult { return i.(lint.CertificateLintInterface).Execute(c) })
					o := observe(func() *lint.LintResult { return l.Execute(c, cfg) })
					reconcile(s, o)
					n++
					ao := absCert(c)
					if inWindowSpec(l.EffectiveDate, l.IneffectiveDate, c.NotBefore) {
						inside++
					} else {
						outside++
					}
					addMonitor(out, monitorRun("cert", s, ao, c.NotBefore, o, nil, false),
						map[string]interface{}{"lint": l.Name, "file": cc.File, "notBefore": c.NotBefore.String(), "observed": o})
					term := fmt.Sprintf("(KCert, %s, %s, %s)", s.Coq(), ao.Coq(), o.Coq())
					if !seen[term] {
						seen[term] = true
						out.Add("boundary", Case{Coq: term, Tag: fmt.Sprintf("%s/%d/%s", o.Kind, o.Status, s.App),
							Desc: map[string]interface{}{"lint": l.Name, "file": cc.File, "notBefore": c.NotBefore.String(), "observed": o, "abstract": s}})
					}
				}
			}
		}
	}
	for _, l := range g.RevocationListLints().Lints() {
		l := l
		for _, d := range []time.Time{l.EffectiveDate, l.IneffectiveDate} {
			if d.IsZero() {
				continue
			}
			for k, cc := range corpus.CRLs {
				if k >= perLint*3 {
					break
				}
				for _, dl := range []time.Duration{-time.Second, 0, time.Second} {
					c2 := *cc.CRL
					c2.ThisUpdate = d.Add(dl)
					// decoy: nextUpdate and the entries' revocation times on the other side of the date
					if k%2 == 1 {
						other := d.Add(time.Hour)
						if dl >= 0 {
							other = d.Add(-time.Hour)
						}
						c2.NextUpdate = other
						c2.RevokedCertificates = append([]x509.RevokedCertificate(nil), c2.RevokedCertificates...)
						for ri := range c2.RevokedCertificates {
							c2.RevokedCertificates[ri].RevocationTime = other
						}
					}
					c := &c2
					s := abstractReal(l.Name, string(l.Source), l.EffectiveDate, l.IneffectiveDate,
						func() interface{} { return l.Lint() }, cfg,
						func(i interface{}) bool { return i.(lint.RevocationListLintInterface).CheckApplies(c) },
						func(i interface{}) *lint.LintResult { return i.(lint.RevocationListLintInterface).Execute(c) })
					o := observe(func() *lint.LintResult { return l.Execute(c, cfg) })
					reconcile(s, o)
					n++
					ao := AbsObj{TU: c.ThisUpdate}
					if inWindowSpec(l.EffectiveDate, l.IneffectiveDate, c.ThisUpdate) {
						inside++
					} else {
						outside++
					}
					addMonitor(out, monitorRun("crl", s, ao, c.ThisUpdate, o, nil, false),
						map[string]interface{}{"lint": l.Name, "file": cc.File, "thisUpdate": c.ThisUpdate.String(), "observed": o})
					term := fmt.Sprintf("(KCrl, %s, %s, %s)", s.Coq(), ao.Coq(), o.Coq())
					if !seen[term] {
						seen[term] = true
						out.Add("boundary", Case{Coq: term, Tag: fmt.Sprintf("crl/%s/%d/%s", o.Kind, o.Status, s.App),
							Desc: map[string]interface{}{"lint": l.Name, "file": cc.File, "thisUpdate": c.ThisUpdate.String(), "observed": o}})
					}
				}
			}
		}
	}
	for _, l := range g.OcspResponseLints().Lints() {
		l := l
		for _, d := range []time.Time{l.EffectiveDate, l.IneffectiveDate} {
			if d.IsZero() {
				continue
			}
			for _, cc := range corpus.OCSPs {
				for _, dl := range []time.Duration{-time.Second, 0, time.Second} {
					c2 := *cc.Resp
					c2.NextUpdate = d.Add(dl)
					c := &c2
					if dl != 0 {
						// decoy: thisUpdate and producedAt on the other side of the date
						c3 := c2
						c3.ThisUpdate, c3.ProducedAt = d.Add(-dl*3600), d.Add(-dl*3600)
						if o2 := observe(func() *lint.LintResult { return l.Execute(&c3, cfg) }); o2.Kind == "res" && o2.Status >= 3 && o2.Status <= 6 && !inWindowSpec(l.EffectiveDate, l.IneffectiveDate, c3.NextUpdate) {
							out.Violate("C03|finding-outside-window:ocsp:"+l.Name, fmt.Sprintf("status %d reported for a response whose nextUpdate is outside the effective window (thisUpdate/producedAt inside)", o2.Status),
								map[string]interface{}{"lint": l.Name, "file": cc.File, "nextUpdate": c3.NextUpdate.String(), "thisUpdate": c3.ThisUpdate.String()}, nil, nil)
						}
						n++
					}
					s := abstractReal(l.Name, string(l.Source), l.EffectiveDate, l.IneffectiveDate,
						func() interface{} { return l.Lint() }, cfg,
						func(i interface{}) bool { return i.(lint.OcspResponseLintInterface).CheckApplies(c) },
						func(i interface{}) *lint.LintResult { return i.(lint.OcspResponseLintInterface).Execute(c) })
					o := observe(func() *lint.LintResult { return l.Execute(c, cfg) })
					reconcile(s, o)
					n++
					ao := AbsObj{NU: c.NextUpdate}
					addMonitor(out, monitorRun("ocsp", s, ao, c.NextUpdate, o, nil, false),
						map[string]interface{}{"lint": l.Name, "file": cc.File, "nextUpdate": c.NextUpdate.String(), "observed": o})
					term := fmt.Sprintf("(KOcsp, %s, %s, %s)", s.Coq(), ao.Coq(), o.Coq())
					if !seen[term] {
						seen[term] = true
						out.Add("boundary", Case{Coq: term, Tag: fmt.Sprintf("ocsp/%s/%d/%s", o.Kind, o.Status, s.App),
							Desc: map[string]interface{}{"lint": l.Name, "file": cc.File, "nextUpdate": c.NextUpdate.String(), "observed": o}})
					}
				}
			}
		}
	}
	// whole runs: the same objects re-dated around every date of the registry and handed to the top-level entry points one
	// after the other (same issuer, same serial number, same octets - only the date differs from the run before)
	{
		dateSet := map[int64]time.Time{}
		for _, l := range g.CertificateLints().Lints() {
			for _, d := range []time.Time{l.EffectiveDate, l.IneffectiveDate} {
				if !d.IsZero() && d.Year() > 1990 {
					dateSet[d.Unix()] = d
				}
			}
		}
		whole := 0
		step := len(corpus.Certs)/(6*perLint) + 1
		for k := 0; k < len(corpus.Certs); k += step {
			cc := corpus.Certs[k]
			for _, d := range dateSet {
				for _, dl := range []time.Duration{0, -time.Second} {
					c2 := *cc.Cert
					c2.NotBefore = d.Add(dl)
					var rs *zlint.ResultSet
					func() {
						defer func() { recover() }()
						rs = zlint.LintCertificateEx(&c2, g)
					}()
					whole++
					if rs == nil {
						continue
					}
					for _, l := range g.CertificateLints().Lints() {
						r := rs.Results[l.Name]
						if r == nil || inWindowSpec(l.EffectiveDate, l.IneffectiveDate, c2.NotBefore) {
							continue
						}
						if r.Status >= lint.Pass && r.Status <= lint.Error {
							out.Violate("C03|finding-outside-window:whole-run:"+l.Name, fmt.Sprintf("LintCertificateEx reports %s for %s on %s re-dated to notBefore %s, outside the lint's window [%s, %s) (the run before had the same certificate dated %s)",
								r.Status, l.Name, cc.File, c2.NotBefore.Format(time.RFC3339), l.EffectiveDate.Format("2006-01-02"), l.IneffectiveDate.Format("2006-01-02"), d.Format(time.RFC3339)),
								map[string]interface{}{"lint": l.Name, "file": cc.File, "notBefore": c2.NotBefore.String()}, "NE", r.Status.String())
							break
						}
					}
				}
			}
		}
		for k, cc := range corpus.CRLs {
			if k%3 != 0 {
				continue
			}
			for _, l0 := range g.RevocationListLints().Lints() {
				for _, d := range []time.Time{l0.EffectiveDate, l0.IneffectiveDate} {
					if d.IsZero() {
						continue
					}
					for _, dl := range []time.Duration{0, -time.Second} {
						c2 := *cc.CRL
						c2.ThisUpdate = d.Add(dl)
						var rs *zlint.ResultSet
						func() {
							defer func() { recover() }()
							rs = zlint.LintRevocationListEx(&c2, g)
						}()
						whole++
						if rs == nil {
							continue
						}
						for _, l := range g.RevocationListLints().Lints() {
							if r := rs.Results[l.Name]; r != nil && !inWindowSpec(l.EffectiveDate, l.IneffectiveDate, c2.ThisUpdate) && r.Status >= lint.Pass && r.Status <= lint.Error {
								out.Violate("C03|finding-outside-window:whole-run:"+l.Name, fmt.Sprintf("LintRevocationListEx reports %s for %s on %s re-dated to thisUpdate %s, outside the lint's window", r.Status, l.Name, cc.File, c2.ThisUpdate.Format(time.RFC3339)),
									map[string]interface{}{"lint": l.Name, "file": cc.File, "thisUpdate": c2.ThisUpdate.String()}, "NE", r.Status.String())
							}
						}
					}
				}
			}
		}
		// very large lists (a size-dependent path inside the entry point is a path): the same, many times over and from four
		// goroutines at once, each on its own parsed copy
		for _, cc := range crlZoo() {
			if len(cc.CRL.RevokedCertificates) < 2000 {
				continue
			}
			reps := 60
			if tier() == "thorough" {
				reps = 600
			}
			var wg sync.WaitGroup
			var mu sync.Mutex
			for w := 0; w < 4; w++ {
				wg.Add(1)
				go func() {
					defer wg.Done()
					defer func() { recover() }()
					crl, err := safeParseCRL(cc.DER)
					if err != nil {
						return
					}
					crl.ThisUpdate = time.Date(2015, 6, 1, 0, 0, 0, 0, time.UTC)
					for r := 0; r < reps; r++ {
						rs := zlint.LintRevocationListEx(crl, g)
						for _, l := range g.RevocationListLints().Lints() {
							if res := rs.Results[l.Name]; res != nil && !inWindowSpec(l.EffectiveDate, l.IneffectiveDate, crl.ThisUpdate) && res.Status >= lint.Pass && res.Status <= lint.Error {
								mu.Lock()
								out.Violate("C03|finding-outside-window:whole-run:"+l.Name, fmt.Sprintf("LintRevocationListEx reports %s for %s on a list of %d entries with thisUpdate 2015-06-01, outside the lint's window (run %d of %d)", res.Status, l.Name, len(crl.RevokedCertificates), r+1, reps),
									map[string]interface{}{"lint": l.Name, "crl": cc.File, "entries": len(crl.RevokedCertificates)}, "NE", res.Status.String())
								mu.Unlock()
								return
							}
						}
					}
				}()
			}
			wg.Wait()
			whole += 4 * reps
		}
		out.Stats["boundary_whole_runs"] = whole
	}
	// "any lint metadata": the window is what the lint value SHOWS when it is executed - copies of registered lints
	// given other dates, and lints of an embedding program whose dates are set after registration
	{
		changed := 0
		step := len(g.CertificateLints().Lints())/40 + 1
		for li, l := range g.CertificateLints().Lints() {
			if li%step != 0 && tier() != "thorough" {
				continue
			}
			for k := 0; k < len(corpus.Certs) && k < 400; k += 7 {
				cc := corpus.Certs[k]
				var base *lint.LintResult
				func() {
					defer func() { recover() }()
					base = l.Execute(cc.Cert, lint.NewEmptyConfig())
				}()
				if base == nil || base.Status < lint.Pass || base.Status > lint.Error {
					continue
				}
				// the certificate is judged by the registered lint: a copy whose window starts one second later, and a
				// copy whose window ends at the certificate's date, must not judge it
				later := *l
				later.EffectiveDate = cc.Cert.NotBefore.Add(time.Second)
				later.IneffectiveDate = time.Time{}
				sunset := *l
				sunset.IneffectiveDate = cc.Cert.NotBefore
				for vi, v := range []*lint.CertificateLint{&later, &sunset} {
					var r *lint.LintResult
					func() {
						defer func() { recover() }()
						r = v.Execute(cc.Cert, lint.NewEmptyConfig())
					}()
					changed++
					if r != nil && r.Status >= lint.Pass && r.Status <= lint.Error {
						out.Violate("C03|finding-outside-window:changed-copy:"+l.Name, fmt.Sprintf("a copy of the registered lint %s with %s reports %s for %s (notBefore %s), which lies outside the window the copy shows",
							l.Name, []string{"EffectiveDate = notBefore + 1 s", "IneffectiveDate = notBefore"}[vi], r.Status, cc.File, cc.Cert.NotBefore.Format(time.RFC3339)),
							map[string]interface{}{"lint": l.Name, "file": cc.File, "variant": vi}, "NE", r.Status.String())
					}
				}
				break
			}
		}
		for _, l := range g.RevocationListLints().Lints() {
			for _, cc := range corpus.CRLs {
				var base *lint.LintResult
				func() {
					defer func() { recover() }()
					base = l.Execute(cc.CRL, lint.NewEmptyConfig())
				}()
				if base == nil || base.Status < lint.Pass || base.Status > lint.Error {
					continue
				}
				later := *l
				later.EffectiveDate = cc.CRL.ThisUpdate.Add(time.Second)
				later.IneffectiveDate = time.Time{}
				sunset := *l
				sunset.IneffectiveDate = cc.CRL.ThisUpdate
				for vi, v := range []*lint.RevocationListLint{&later, &sunset} {
					var r *lint.LintResult
					func() {
						defer func() { recover() }()
						r = v.Execute(cc.CRL, lint.NewEmptyConfig())
					}()
					changed++
					if r != nil && r.Status >= lint.Pass && r.Status <= lint.Error {
						out.Violate("C03|finding-outside-window:changed-copy:"+l.Name, fmt.Sprintf("a copy of the registered CRL lint %s with %s reports %s for %s (thisUpdate %s), outside the window the copy shows",
							l.Name, []string{"EffectiveDate = thisUpdate + 1 s", "IneffectiveDate = thisUpdate"}[vi], r.Status, cc.File, cc.CRL.ThisUpdate.Format(time.RFC3339)),
							map[string]interface{}{"lint": l.Name, "file": cc.File, "variant": vi}, "NE", r.Status.String())
					}
				}
				break
			}
		}
		// a lint of an embedding program: registered, used, then given a sunset date (and later an effective date) in place
		if len(corpus.Certs) > 0 {
			vreg := lint.VerifNewRegistry()
			reg := vreg.Registry()
			own := &lint.CertificateLint{LintMetadata: lint.LintMetadata{Name: "e_verif_own_window", Description: "x", Citation: "x", Source: lint.Community, EffectiveDate: time.Date(2000, 1, 1, 0, 0, 0, 0, time.UTC)},
				Lint: func() lint.CertificateLintInterface { return alwaysPass{} }}
			if err := vreg.RegisterCertificate(own); err == nil {
				for k := 0; k < len(corpus.Certs) && k < 60; k += 9 {
					cc := corpus.Certs[k]
					if cc.Cert.NotBefore.Before(own.EffectiveDate) {
						continue
					}
					first := zlint.LintCertificateEx(cc.Cert, reg).Results[own.Name]
					own.IneffectiveDate = cc.Cert.NotBefore
					second := zlint.LintCertificateEx(cc.Cert, reg).Results[own.Name]
					own.IneffectiveDate = time.Time{}
					own.EffectiveDate = cc.Cert.NotBefore.Add(time.Second)
					third := zlint.LintCertificateEx(cc.Cert, reg).Results[own.Name]
					own.EffectiveDate = time.Date(2000, 1, 1, 0, 0, 0, 0, time.UTC)
					changed += 3
					for vi, r := range []*lint.LintResult{second, third} {
						if first != nil && first.Status == lint.Pass && r != nil && r.Status >= lint.Pass && r.Status <= lint.Error {
							out.Violate("C03|finding-outside-window:changed-after-registration", fmt.Sprintf("a registered lint whose %s after registration reports %s for %s through LintCertificateEx, while the result's own metadata shows the new window",
								[]string{"IneffectiveDate was set to the certificate's notBefore", "EffectiveDate was moved to notBefore + 1 s"}[vi], r.Status, cc.File),
								map[string]interface{}{"file": cc.File, "variant": vi}, "NE", r.Status.String())
						}
					}
				}
			}
		}
		out.Stats["boundary_changed_metadata_runs"] = changed
	}
	out.Stats["boundary_runs"] = n
	out.Stats["boundary_outside"] = outside
	out.Stats["boundary_inside"] = inside
}

var _ = x509.ExtKeyUsageAny

type alwaysPass struct{}

func (alwaysPass) CheckApplies(c *x509.Certificate) bool { return true }
func (alwaysPass) Execute(c *x509.Certificate) *lint.LintResult {
	return &lint.LintResult{Status: lint.Pass}
}
