package main

import "math/rand"

// mrand adapts the harness PRNG to math/rand.Source for big.Int.Rand
type mrandSrc struct{ r *Rng }

func (m mrandSrc) Int63() int64 { return int64(m.r.Next() >> 1) }
func (m mrandSrc) Seed(int64)   {}

type mrand = rand.Rand

func init() {}
