package main

import (
	"fmt"
	"net"
	"strings"
	"time"

	"github.com/zmap/zcrypto/x509"
	"github.com/zmap/zlint/v3/lint"
	"github.com/zmap/zlint/v3/util"
)

// the fourteen name-scanning lints modelled in Kernels/Names.v, in the model's order
var nameLints = []string{"e_dnsname_label_too_long", "e_dnsname_empty_label", "e_dnsname_bad_character_in_label", "e_dnsname_left_label_wildcard_correct",
	"e_dnsname_wildcard_only_in_left_label", "e_rfc_dnsname_empty_label", "e_rfc_dnsname_label_too_long", "e_san_bare_wildcard", "n_san_dns_name_duplicate",
	"e_san_dns_name_includes_null_char", "e_san_dns_name_starts_with_period", "e_san_wildcard_not_first", "e_ext_san_dns_name_too_long", "e_ext_san_space_dns_name"}

func isASCII(s string) bool {
	for i := 0; i < len(s); i++ {
		if s[i] >= 0x80 {
			return false
		}
	}
	return true
}

// nameCase: the view of the certificate the model takes, and the statuses the real lints give (through the framework)
func nameCase(c *x509.Certificate) (term, tag string, ok bool) {
	if c.NotBefore.Before(time.Date(2013, 1, 1, 0, 0, 0, 0, time.UTC)) || c.NotBefore.After(time.Date(2035, 1, 1, 0, 0, 0, 0, time.UTC)) {
		return "", "", false
	}
	ascii := true
	for _, d := range c.DNSNames {
		if !isASCII(d) {
			ascii = false
		}
	}
	sts := make([]string, len(nameLints))
	tags := make([]string, len(nameLints))
	for i, n := range nameLints {
		l := lint.GlobalRegistry().CertificateLints().ByName(n)
		s := -3
		if l != nil {
			s = statusOrPanic(l.Execute(c, lint.NewEmptyConfig()))
		}
		if n == "n_san_dns_name_duplicate" && !ascii {
			s = -9 // strings.ToLower on non-ASCII text is library behaviour the model does not cover
		}
		sts[i] = cqZ(int64(s))
		tags[i] = fmt.Sprint(s)
	}
	view := fmt.Sprintf("(mkNview %s %s %s %s %s %s)", cqBool(util.IsSubscriberCert(c)), cqBool(util.IsServerAuthCert(c)), cqBool(util.IsExtInCert(c, util.SubjectAlternateNameOID)),
		cqBytes(c.Subject.CommonName), cqBool(net.ParseIP(c.Subject.CommonName) != nil), cqBytesList(c.DNSNames))
	if len(c.DNSNames) == 0 {
		view = strings.Replace(view, " [])", " (@nil bytes))", 1)
	}
	return fmt.Sprintf("(%s, %s)", view, cqList(sts)), strings.Join(tags, "/"), true
}
