package main

import (
	"fmt"

	"github.com/zmap/zcrypto/x509"
	"github.com/zmap/zcrypto/x509/pkix"
	"github.com/zmap/zlint/v3/lint"
	"github.com/zmap/zlint/v3/util"
)

var ncFormLintNames = []string{"e_name_constraint_maximum_not_absent", "e_name_constraint_minimum_non_zero", "w_name_constraint_on_edi_party_name", "w_name_constraint_on_registered_id",
	"w_name_constraint_on_x400", "e_ext_name_constraints_not_in_ca"}

// ncFormCase: one correspondence case for Kernels/NcForm.v - the (minimum, maximum) pairs of the fourteen subtree lists,
// whether the extension is there and the certificate is a CA, and each lint's status (NA when CheckApplies is false).
func ncFormCase(c *x509.Certificate) (string, string, bool) {
	var lists []string
	mm := func(pairs [][2]int) {
		var items []string
		for _, p := range pairs {
			items = append(items, fmt.Sprintf("(%s, %s)", cqZ(int64(p[0])), cqZ(int64(p[1]))))
		}
		lists = append(lists, cqTyped(items, "(Z * Z)"))
	}
	str := func(l []x509.GeneralSubtreeString) (o [][2]int) {
		for _, s := range l {
			o = append(o, [2]int{s.Min, s.Max})
		}
		return
	}
	ipl := func(l []x509.GeneralSubtreeIP) (o [][2]int) {
		for _, s := range l {
			o = append(o, [2]int{s.Min, s.Max})
		}
		return
	}
	nml := func(l []x509.GeneralSubtreeName) (o [][2]int) {
		for _, s := range l {
			o = append(o, [2]int{s.Min, s.Max})
		}
		return
	}
	edl := func(l []x509.GeneralSubtreeEdi) (o [][2]int) {
		for _, s := range l {
			o = append(o, [2]int{s.Min, s.Max})
		}
		return
	}
	oil := func(l []x509.GeneralSubtreeOid) (o [][2]int) {
		for _, s := range l {
			o = append(o, [2]int{s.Min, s.Max})
		}
		return
	}
	rwl := func(l []x509.GeneralSubtreeRaw) (o [][2]int) {
		for _, s := range l {
			o = append(o, [2]int{s.Min, s.Max})
		}
		return
	}
	mm(str(c.PermittedDNSNames))
	mm(str(c.ExcludedDNSNames))
	mm(str(c.PermittedEmailAddresses))
	mm(str(c.ExcludedEmailAddresses))
	mm(ipl(c.PermittedIPAddresses))
	mm(ipl(c.ExcludedIPAddresses))
	mm(nml(c.PermittedDirectoryNames))
	mm(nml(c.ExcludedDirectoryNames))
	mm(edl(c.PermittedEdiPartyNames))
	mm(edl(c.ExcludedEdiPartyNames))
	mm(oil(c.PermittedRegisteredIDs))
	mm(oil(c.ExcludedRegisteredIDs))
	mm(rwl(c.PermittedX400Addresses))
	mm(rwl(c.ExcludedX400Addresses))
	// an empty non-nil slice is "present" to the three `!= nil` tests; the parser only ever appends, so nil = empty there
	for _, l := range []int{len(c.PermittedEdiPartyNames), len(c.ExcludedEdiPartyNames), len(c.PermittedRegisteredIDs), len(c.ExcludedRegisteredIDs), len(c.PermittedX400Addresses), len(c.ExcludedX400Addresses)} {
		_ = l
	}
	if (c.PermittedEdiPartyNames != nil && len(c.PermittedEdiPartyNames) == 0) || (c.ExcludedEdiPartyNames != nil && len(c.ExcludedEdiPartyNames) == 0) ||
		(c.PermittedRegisteredIDs != nil && len(c.PermittedRegisteredIDs) == 0) || (c.ExcludedRegisteredIDs != nil && len(c.ExcludedRegisteredIDs) == 0) ||
		(c.PermittedX400Addresses != nil && len(c.PermittedX400Addresses) == 0) || (c.ExcludedX400Addresses != nil && len(c.ExcludedX400Addresses) == 0) {
		return "", "", false
	}
	var sts []string
	tag := ""
	for _, n := range ncFormLintNames {
		st := 0
		if l := lint.GlobalRegistry().CertificateLints().ByName(n); l != nil {
			func() {
				defer func() {
					if recover() != nil {
						st = -1
					}
				}()
				inst := l.Lint()
				if !inst.CheckApplies(c) {
					st = 1
				} else if r := inst.Execute(c); r == nil {
					st = -2
				} else {
					st = int(r.Status)
				}
			}()
		}
		sts = append(sts, cqZ(int64(st)))
		tag += fmt.Sprintf("%d/", st)
	}
	return fmt.Sprintf("(mkNc %s %s %s, %s)", cqBool(util.GetExtFromCert(c, util.NameConstOID) != nil), cqBool(c.IsCA), cqList(lists), cqList(sts)), tag[:len(tag)-1], true
}

// ncFormProbes: certificate values with one subtree carrying a minimum, a maximum, both or neither in each of the
// fourteen lists in turn (and in two lists at once), with and without the extension, CA and not.
func ncFormProbes() []*x509.Certificate {
	var out []*x509.Certificate
	mk := func(set func(c *x509.Certificate), ext, ca bool) {
		c := &x509.Certificate{IsCA: ca, ExtensionsMap: map[string]pkix.Extension{}}
		if ext {
			e := pkix.Extension{Id: util.NameConstOID, Critical: true, Value: []byte{0x30, 0x00}}
			c.Extensions = append(c.Extensions, e)
			c.ExtensionsMap[util.NameConstOID.String()] = e
		}
		set(c)
		out = append(out, c)
	}
	for _, mmx := range [][2]int{{0, 0}, {1, 0}, {0, 1}, {2, 3}, {0, -1}} {
		mn, mx := mmx[0], mmx[1]
		setters := []func(c *x509.Certificate){
			func(c *x509.Certificate) { c.PermittedDNSNames = []x509.GeneralSubtreeString{{Data: "a.example", Min: mn, Max: mx}} },
			func(c *x509.Certificate) { c.ExcludedDNSNames = []x509.GeneralSubtreeString{{Data: "a.example", Min: mn, Max: mx}} },
			func(c *x509.Certificate) { c.PermittedEmailAddresses = []x509.GeneralSubtreeString{{Data: "example.com", Min: mn, Max: mx}} },
			func(c *x509.Certificate) { c.ExcludedEmailAddresses = []x509.GeneralSubtreeString{{Data: "example.com", Min: mn, Max: mx}} },
			func(c *x509.Certificate) { c.PermittedIPAddresses = []x509.GeneralSubtreeIP{{Min: mn, Max: mx}} },
			func(c *x509.Certificate) { c.ExcludedIPAddresses = []x509.GeneralSubtreeIP{{Min: mn, Max: mx}} },
			func(c *x509.Certificate) { c.PermittedDirectoryNames = []x509.GeneralSubtreeName{{Min: mn, Max: mx}} },
			func(c *x509.Certificate) { c.ExcludedDirectoryNames = []x509.GeneralSubtreeName{{Min: mn, Max: mx}} },
			func(c *x509.Certificate) { c.PermittedEdiPartyNames = []x509.GeneralSubtreeEdi{{Min: mn, Max: mx}} },
			func(c *x509.Certificate) { c.ExcludedEdiPartyNames = []x509.GeneralSubtreeEdi{{Min: mn, Max: mx}} },
			func(c *x509.Certificate) { c.PermittedRegisteredIDs = []x509.GeneralSubtreeOid{{Min: mn, Max: mx}} },
			func(c *x509.Certificate) { c.ExcludedRegisteredIDs = []x509.GeneralSubtreeOid{{Min: mn, Max: mx}} },
			func(c *x509.Certificate) { c.PermittedX400Addresses = []x509.GeneralSubtreeRaw{{Min: mn, Max: mx}} },
			func(c *x509.Certificate) { c.ExcludedX400Addresses = []x509.GeneralSubtreeRaw{{Min: mn, Max: mx}} },
		}
		for i, s := range setters {
			mk(s, true, i%2 == 0)
			if i%5 == 0 {
				mk(s, false, true)
			}
			if i+3 < len(setters) {
				s2 := setters[i+3]
				mk(func(c *x509.Certificate) {
					s(c)
					s2(c)
					c.PermittedDNSNames = append(c.PermittedDNSNames, x509.GeneralSubtreeString{Data: "b.example"})
				}, true, true)
			}
		}
	}
	mk(func(c *x509.Certificate) {}, true, true)
	mk(func(c *x509.Certificate) {}, true, false)
	mk(func(c *x509.Certificate) {}, false, false)
	return out
}
