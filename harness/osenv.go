package main

import "os"

func osEnviron() []string { return os.Environ() }

func osOpen(p string) {
	f, err := os.Open(p)
	if err == nil {
		f.Close()
	}
}
