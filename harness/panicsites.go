package main

import (
	"bufio"
	"bytes"
	"crypto/sha256"
	"encoding/hex"
	"fmt"
	"go/ast"
	"go/parser"
	"go/printer"
	"go/token"
	"os"
	"os/exec"
	"path/filepath"
	"regexp"
	"sort"
	"strconv"
	"strings"
)

// panicsites: the inventory of places where the lint tree can raise a run-time panic by indexing or slicing, taken from
// the compiler itself.  `go build -gcflags=-d=ssa/check_bce/debug=1` reports every index / slice expression whose bounds
// check the compiler's prove pass could NOT eliminate; everything it does not report is in range by the compiler's own
// proof.  Each remaining site is keyed by file, enclosing function and the text of the expression (not by line, so that
// unrelated edits do not move it), and must be accounted for in /verif/panic_audit.txt (modelled with a safety theorem,
// guarded by a check the compiler cannot see, a parser invariant, an inlined standard-library body, ...).

type bceSite struct {
	File, Func, Kind, Expr, Hash string
	Line, Col                    int
}

// the key ends with a digest of the enclosing function's text: the audit of a site was made against that text, an edit
// of the function makes it stale
func (s bceSite) Key() string { return s.File + "|" + s.Func + "|" + s.Kind + "|" + s.Expr + "|h=" + s.Hash }

func textDigest(fset *token.FileSet, n ast.Node) string {
	var b bytes.Buffer
	printer.Fprint(&b, fset, n)
	sum := sha256.Sum256(b.Bytes())
	return hex.EncodeToString(sum[:4])
}

var bceLine = regexp.MustCompile(`^(\S+\.go):(\d+):(\d+): Found (IsInBounds|IsSliceInBounds)`)

func bceSites() ([]bceSite, error) {
	root := filepath.Join(repoDir(), "v3")
	cache := os.Getenv("VERIF_BCE_CACHE")
	if cache == "" {
		cache = filepath.Join(os.TempDir(), "verif-bce-cache")
	}
	cmd := exec.Command("go", "build", "-gcflags=github.com/zmap/zlint/v3/...=-d=ssa/check_bce/debug=1", "./lint/...", "./lints/...", "./util/...", ".")
	cmd.Dir = root
	cmd.Env = append(os.Environ(), "GOCACHE="+cache, "GOFLAGS=-mod=mod", "GOPROXY=off", "GOSUMDB=off", "GOTOOLCHAIN=local")
	var buf bytes.Buffer
	cmd.Stdout, cmd.Stderr = &buf, &buf
	if err := cmd.Run(); err != nil {
		return nil, fmt.Errorf("go build with check_bce failed: %v: %s", err, buf.String())
	}
	type pos struct {
		file      string
		line, col int
		kind      string
	}
	seen := map[pos]bool{}
	var ps []pos
	sc := bufio.NewScanner(&buf)
	sc.Buffer(make([]byte, 1<<20), 1<<24)
	for sc.Scan() {
		m := bceLine.FindStringSubmatch(strings.TrimSpace(sc.Text()))
		if m == nil {
			continue
		}
		l, _ := strconv.Atoi(m[2])
		c, _ := strconv.Atoi(m[3])
		p := pos{filepath.ToSlash(strings.TrimPrefix(m[1], "./")), l, c, m[4]}
		if !seen[p] {
			seen[p] = true
			ps = append(ps, p)
		}
	}
	fset := token.NewFileSet()
	parsed := map[string]*ast.File{}
	var out []bceSite
	for _, p := range ps {
		f, ok := parsed[p.file]
		if !ok {
			var err error
			f, err = parser.ParseFile(fset, filepath.Join(root, p.file), nil, 0)
			if err != nil {
				return nil, err
			}
			parsed[p.file] = f
		}
		tf := fset.File(f.Pos())
		if p.line > tf.LineCount() {
			continue
		}
		target := tf.LineStart(p.line) + token.Pos(p.col-1)
		fn := "(file scope)"
		digest := "00000000"
		var best ast.Node
		ast.Inspect(f, func(n ast.Node) bool {
			if n == nil {
				return true
			}
			if target < n.Pos() || target >= n.End() {
				return false
			}
			switch x := n.(type) {
			case *ast.FuncDecl:
				digest = textDigest(fset, x)
				fn = x.Name.Name
				if x.Recv != nil && len(x.Recv.List) == 1 {
					var b bytes.Buffer
					printer.Fprint(&b, fset, x.Recv.List[0].Type)
					fn = "(" + b.String() + ")." + fn
				}
			case *ast.IndexExpr, *ast.SliceExpr, *ast.CallExpr:
				best = n // innermost wins: Inspect goes outside-in
			}
			return true
		})
		expr := "?"
		if best != nil {
			var b bytes.Buffer
			printer.Fprint(&b, fset, best)
			expr = strings.Join(strings.Fields(b.String()), " ")
			if len(expr) > 90 {
				expr = expr[:90]
			}
		}
		out = append(out, bceSite{p.file, fn, p.kind, expr, digest, p.line, p.col})
	}
	sort.Slice(out, func(i, j int) bool {
		if out[i].Key() != out[j].Key() {
			return out[i].Key() < out[j].Key()
		}
		return out[i].Line < out[j].Line
	})
	return out, nil
}

func init() {
	commands["panicsites"] = func(args []string) error {
		out := NewOutput()
		sites, err := bceSites()
		if err != nil {
			return err
		}
		// unchecked type assertions, explicit panics and integer divisions by a variable inside lint closures (go/ssa)
		facts, _, err := computeFacts()
		if err != nil {
			return err
		}
		inClosure := map[string]bool{}
		for _, f := range facts {
			for _, k := range f.ClosureFns {
				inClosure[k] = true
			}
		}
		var rows []map[string]interface{}
		for _, s := range sites {
			// the go/ssa name of the enclosing function: (*T).M in lints/x/f.go is (*lints/x.T).M
			dir := filepath.ToSlash(filepath.Dir(s.File))
			ssaName := dir + "." + s.Func
			if strings.HasPrefix(s.Func, "(*") {
				ssaName = "(*" + dir + "." + s.Func[2:]
			} else if strings.HasPrefix(s.Func, "(") {
				ssaName = "(" + dir + "." + s.Func[1:]
			}
			rows = append(rows, map[string]interface{}{"key": s.Key(), "file": s.File, "func": s.Func, "kind": s.Kind, "expr": s.Expr, "line": s.Line, "col": s.Col,
				"in_lint_closure": inClosure[ssaName], "ssa_name": ssaName})
		}
		out.Data["bounds"] = rows
		other := map[string][]string{}
		for _, f := range facts {
			for _, k := range f.PanicSites {
				other[k] = append(other[k], f.Name)
			}
		}
		var orows []map[string]interface{}
		for _, k := range sortedKeys(other) {
			l := other[k]
			n := len(l)
			if n > 4 {
				l = l[:4]
			}
			orows = append(orows, map[string]interface{}{"key": k, "lints": l, "lint_count": n})
		}
		out.Data["other"] = orows
		return out.Emit()
	}
}
