package main

import (
	"encoding/asn1"
	"fmt"
	"strings"

	"crypto/x509/pkix"

	"github.com/zmap/zcrypto/x509"
	"github.com/zmap/zlint/v3/lint"
	"github.com/zmap/zlint/v3/util"
)

var policyLintNames = []string{"e_ext_cert_policy_duplicate", "w_ext_cert_policy_contains_noticeref", "e_ext_cert_policy_explicit_text_ia5_string", "w_ext_cert_policy_explicit_text_not_utf8"}

// policyCase: one correspondence case for Kernels/Policies.v - what the parser extracted from certificatePolicies (the
// identifiers, per policy the noticeRef numbers / organizations and the explicitText tags) and each lint's status (NA
// when CheckApplies is false).
func policyCase(c *x509.Certificate) (string, string, bool) {
	if util.GetExtFromCert(c, util.CertPolicyOID) == nil && len(c.ExplicitTexts) == 0 {
		return "", "", false
	}
	var ids, nums, orgs, texts []string
	for _, id := range c.PolicyIdentifiers {
		var parts []string
		for _, a := range id {
			parts = append(parts, fmt.Sprint(a))
		}
		ids = append(ids, "["+strings.Join(parts, ";")+"]")
	}
	for _, lvl := range c.NoticeRefNumbers {
		var items []string
		for _, n := range lvl {
			items = append(items, cqBool(n != nil))
		}
		nums = append(nums, cqTyped(items, "bool"))
	}
	for _, lvl := range c.NoticeRefOrgnization {
		var items []string
		for _, o := range lvl {
			items = append(items, fmt.Sprintf("%d%%nat", len(o.Bytes)))
		}
		orgs = append(orgs, cqTyped(items, "nat"))
	}
	for _, lvl := range c.ExplicitTexts {
		if lvl == nil {
			texts = append(texts, "None")
			continue
		}
		var items []string
		for _, t := range lvl {
			items = append(items, cqZ(int64(t.Tag)))
		}
		texts = append(texts, "(Some "+cqTyped(items, "Z")+")")
	}
	var sts []string
	tag := ""
	for _, n := range policyLintNames {
		st := 0
		if l := lint.GlobalRegistry().CertificateLints().ByName(n); l != nil {
			func() {
				defer func() {
					if recover() != nil {
						st = -1
					}
				}()
				inst := l.Lint()
				if !inst.CheckApplies(c) {
					st = 1
				} else if r := inst.Execute(c); r == nil {
					st = -2
				} else {
					st = int(r.Status)
				}
			}()
		}
		sts = append(sts, cqZ(int64(st)))
		tag += fmt.Sprintf("%d/", st)
	}
	view := fmt.Sprintf("(mkPol %s %s %s %s %s)", cqBool(util.GetExtFromCert(c, util.CertPolicyOID) != nil), cqTyped(ids, "oid"), cqTyped(nums, "(list bool)"), cqTyped(orgs, "(list nat)"), cqTyped(texts, "(option (list Z))"))
	return fmt.Sprintf("(%s, %s)", view, cqList(sts)), tag[:len(tag)-1], true
}

// policyProbes: certificates whose certificatePolicies carry one to three policies (with repeats), each with a
// userNotice that has an explicitText of some string type, a noticeRef (organization, numbers), both or neither, or a
// CPS qualifier only.
func policyProbes() [][]byte {
	var out [][]byte
	oid := func(o ...int) []byte { b, _ := asn1.Marshal(asn1.ObjectIdentifier(o)); return b }
	pols := [][]byte{oid(2, 23, 140, 1, 2, 1), oid(2, 23, 140, 1, 2, 2), oid(1, 3, 6, 1, 4, 1, 55555, 9), oid(2, 5, 29, 32, 0)}
	unotice := oid(1, 3, 6, 1, 5, 5, 7, 2, 2)
	cps := oid(1, 3, 6, 1, 5, 5, 7, 2, 1)
	noticeRef := func(org []byte, nums ...int) []byte {
		var ns []byte
		for _, n := range nums {
			ns = append(ns, 0x02, 0x01, byte(n))
		}
		return encTLV(0x30, concat(encTLV(0x0c, org), encTLV(0x30, ns)))
	}
	quals := [][]byte{
		nil,
		encTLV(0x30, encTLV(0x30, concat(cps, encTLV(0x16, []byte("http://cps.example/"))))),
		encTLV(0x30, encTLV(0x30, concat(unotice, encTLV(0x30, encTLV(0x0c, []byte("utf8 text")))))),
		encTLV(0x30, encTLV(0x30, concat(unotice, encTLV(0x30, encTLV(0x16, []byte("ia5 text")))))),
		encTLV(0x30, encTLV(0x30, concat(unotice, encTLV(0x30, encTLV(0x1a, []byte("visible text")))))),
		encTLV(0x30, encTLV(0x30, concat(unotice, encTLV(0x30, encTLV(0x1e, []byte{0, 0x62, 0, 0x6d}))))),
		encTLV(0x30, encTLV(0x30, concat(unotice, encTLV(0x30, noticeRef([]byte("Org"), 1, 2))))),
		encTLV(0x30, encTLV(0x30, concat(unotice, encTLV(0x30, concat(noticeRef(nil), encTLV(0x0c, []byte("with empty ref"))))))),
		encTLV(0x30, encTLV(0x30, concat(unotice, encTLV(0x30, concat(noticeRef([]byte("O"), 7), encTLV(0x16, []byte("ref and ia5"))))))),
		encTLV(0x30, encTLV(0x30, concat(unotice, encTLV(0x30, nil)))),
	}
	n := 0
	for a := range pols {
		for b := -1; b < len(pols); b++ {
			for qa := range quals {
				qb := (qa*3 + a + b + 1) % len(quals)
				if n%2 == 1 && tier() != "thorough" && qa > 3 && b >= 0 {
					n++
					continue
				}
				n++
				body := encTLV(0x30, concat(pols[a], quals[qa]))
				if b >= 0 {
					body = concat(body, encTLV(0x30, concat(pols[b], quals[qb])))
				}
				t := leafTemplate()
				t.PolicyIdentifiers = nil
				t.ExtraExtensions = append(t.ExtraExtensions, pkix.Extension{Id: asn1.ObjectIdentifier{2, 5, 29, 32}, Value: encTLV(0x30, body)})
				if der, _, err := issue(t, nil); err == nil {
					out = append(out, der)
				}
			}
		}
	}
	return out
}
