package main

import (
	"fmt"
	"strings"

	"github.com/zmap/zcrypto/x509"
	"github.com/zmap/zlint/v3/lint"
)

var presenceLintNames = []string{"e_sub_cert_country_name_must_appear", "e_sub_cert_locality_name_must_appear", "e_sub_cert_locality_name_must_not_appear", "e_sub_cert_postal_code_must_not_appear",
	"e_sub_cert_province_must_appear", "e_sub_cert_province_must_not_appear", "e_sub_cert_street_address_should_not_exist", "e_cab_dv_conflicts_with_locality", "e_cab_dv_conflicts_with_org",
	"e_cab_dv_conflicts_with_postal", "e_cab_dv_conflicts_with_province", "e_cab_dv_conflicts_with_street", "e_cab_dv_subject_invalid_values", "e_cab_iv_requires_personal_name", "e_cab_ov_requires_org",
	"e_cert_policy_iv_requires_country", "e_cert_policy_iv_requires_province_or_locality", "e_cert_policy_ov_requires_country", "e_cert_policy_ov_requires_province_or_locality",
	"n_subject_common_name_included", "w_subject_common_name_included", "e_subject_contains_organizational_unit_name_and_no_organization_name", "w_extra_subject_common_names"}

// presenceCase: one correspondence case for Kernels/SubjPresence.v - the lengths of the parsed subject lists, the
// attribute types in order, and what the twenty-three bodies return (direct Execute under recover).
func presenceCase(c *x509.Certificate) (string, string, bool) {
	s := c.Subject
	var types []string
	for _, atv := range s.Names {
		var parts []string
		for _, a := range atv.Type {
			parts = append(parts, fmt.Sprint(a))
		}
		types = append(types, "["+strings.Join(parts, ";")+"]")
	}
	var sts []string
	tag := ""
	for _, n := range presenceLintNames {
		st := 0
		if l := lint.GlobalRegistry().CertificateLints().ByName(n); l != nil {
			func() {
				defer func() {
					if recover() != nil {
						st = -1
					}
				}()
				if r := l.Lint().Execute(c); r == nil {
					st = -2
				} else {
					st = int(r.Status)
				}
			}()
		}
		sts = append(sts, cqZ(int64(st)))
		tag += fmt.Sprintf("%d/", st)
	}
	view := fmt.Sprintf("(mkSubj %d %d %d %d %d %d %d %d %s %d %s)", len(s.Organization), len(s.GivenName), len(s.Surname), len(s.Country), len(s.Locality), len(s.Province),
		len(s.StreetAddress), len(s.PostalCode), cqBool(s.CommonName == ""), len(s.CommonNames), cqTyped(types, "oid"))
	return fmt.Sprintf("(%s, %s)", view, cqList(sts)), tag[:len(tag)-1], true
}
