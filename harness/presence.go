package main

import (
	"fmt"
	"strings"
	"time"

	"github.com/zmap/zcrypto/x509/pkix"

	"github.com/zmap/zcrypto/x509"
	"github.com/zmap/zlint/v3/lint"
	"github.com/zmap/zlint/v3/util"
)

var presenceLintNames = []string{"e_sub_cert_country_name_must_appear", "e_sub_cert_locality_name_must_appear", "e_sub_cert_locality_name_must_not_appear", "e_sub_cert_postal_code_must_not_appear",
	"e_sub_cert_province_must_appear", "e_sub_cert_province_must_not_appear", "e_sub_cert_street_address_should_not_exist", "e_cab_dv_conflicts_with_locality", "e_cab_dv_conflicts_with_org",
	"e_cab_dv_conflicts_with_postal", "e_cab_dv_conflicts_with_province", "e_cab_dv_conflicts_with_street", "e_cab_dv_subject_invalid_values", "e_cab_iv_requires_personal_name", "e_cab_ov_requires_org",
	"e_cert_policy_iv_requires_country", "e_cert_policy_iv_requires_province_or_locality", "e_cert_policy_ov_requires_country", "e_cert_policy_ov_requires_province_or_locality",
	"n_subject_common_name_included", "w_subject_common_name_included", "e_subject_contains_organizational_unit_name_and_no_organization_name", "w_extra_subject_common_names"}

// presenceCase: one correspondence case for Kernels/SubjPresence.v - the lengths of the parsed subject lists, the
// attribute types in order, and what the twenty-three bodies return (direct Execute under recover).
func presenceCase(c *x509.Certificate) (string, string, bool) {
	s := c.Subject
	var types []string
	for _, atv := range s.Names {
		var parts []string
		for _, a := range atv.Type {
			parts = append(parts, fmt.Sprint(a))
		}
		types = append(types, "["+strings.Join(parts, ";")+"]")
	}
	var sts []string
	tag := ""
	for _, n := range presenceLintNames {
		st := 0
		if l := lint.GlobalRegistry().CertificateLints().ByName(n); l != nil {
			func() {
				defer func() {
					if recover() != nil {
						st = -1
					}
				}()
				if r := l.Lint().Execute(c); r == nil {
					st = -2
				} else {
					st = int(r.Status)
				}
			}()
		}
		sts = append(sts, cqZ(int64(st)))
		tag += fmt.Sprintf("%d/", st)
	}
	view := fmt.Sprintf("(mkSubj %d %d %d %d %d %d %d %d %s %d %s)", len(s.Organization), len(s.GivenName), len(s.Surname), len(s.Country), len(s.Locality), len(s.Province),
		len(s.StreetAddress), len(s.PostalCode), cqBool(s.CommonName == ""), len(s.CommonNames), cqTyped(types, "oid"))
	return fmt.Sprintf("(%s, %s)", view, cqList(sts)), tag[:len(tag)-1], true
}

var evLintNames = []string{"e_ev_business_category_missing", "e_ev_country_name_missing", "e_ev_organization_name_missing", "e_ev_serial_number_missing", "e_ev_san_ip_address_present"}

// evCase: one correspondence case for Kernels/EvPresence.v (bodies called directly under recover).
func evCase(c *x509.Certificate) (string, string, bool) {
	var types []string
	for _, atv := range c.Subject.Names {
		var parts []string
		for _, a := range atv.Type {
			parts = append(parts, fmt.Sprint(a))
		}
		types = append(types, "["+strings.Join(parts, ";")+"]")
	}
	var sts []string
	tag := ""
	for _, n := range evLintNames {
		st := 0
		if l := lint.GlobalRegistry().CertificateLints().ByName(n); l != nil {
			func() {
				defer func() {
					if recover() != nil {
						st = -1
					}
				}()
				if r := l.Lint().Execute(c); r == nil {
					st = -2
				} else {
					st = int(r.Status)
				}
			}()
		}
		sts = append(sts, cqZ(int64(st)))
		tag += fmt.Sprintf("%d/", st)
	}
	return fmt.Sprintf("(mkEv %s %d %d, %s)", cqTyped(types, "oid"), len(c.Subject.SerialNumber), len(c.IPAddresses), cqList(sts)), tag[:len(tag)-1], true
}

var caSubjectLintNames = []string{"e_ca_common_name_missing", "e_ca_country_name_missing", "e_ca_organization_name_missing", "e_organizational_unit_name_prohibited",
	"e_sub_cert_given_name_surname_contains_correct_policy", "e_subject_empty_without_san", "e_subj_country_not_uppercase", "e_validity_time_not_positive"}

// caSubjectCase: one correspondence case for Kernels/CaSubject.v (bodies called directly under recover).
func caSubjectCase(c *x509.Certificate) (string, string, bool) {
	s := c.Subject
	if (s.Country != nil && len(s.Country) == 0) || (s.Organization != nil && len(s.Organization) == 0) || (s.OrganizationalUnit != nil && len(s.OrganizationalUnit) == 0) {
		return "", "", false // nil and empty differ for the bodies; the parser never produces an empty non-nil list
	}
	bl := func(l []string) string {
		var items []string
		for _, x := range l {
			items = append(items, cqBytes(x))
		}
		return cqTyped(items, "bytes")
	}
	var pols []string
	for _, id := range c.PolicyIdentifiers {
		var parts []string
		for _, a := range id {
			parts = append(parts, fmt.Sprint(a))
		}
		pols = append(pols, "["+strings.Join(parts, ";")+"]")
	}
	var sts []string
	tag := ""
	for _, n := range caSubjectLintNames {
		st := 0
		if l := lint.GlobalRegistry().CertificateLints().ByName(n); l != nil {
			func() {
				defer func() {
					if recover() != nil {
						st = -1
					}
				}()
				if r := l.Lint().Execute(c); r == nil {
					st = -2
				} else {
					st = int(r.Status)
				}
			}()
		}
		sts = append(sts, cqZ(int64(st)))
		tag += fmt.Sprintf("%d/", st)
	}
	hasSAN := util.IsExtInCert(c, util.SubjectAlternateNameOID)
	view := fmt.Sprintf("(mkCs %s %s %s %d %s %s %s %s %s)", cqBool(s.CommonName == ""), bl(s.Country), bl(s.Organization), len(s.Names), cqBool(hasSAN), cqBool(s.OrganizationalUnit != nil),
		cqTyped(pols, "oid"), cqZ(c.NotBefore.Unix()), cqZ(c.NotAfter.Unix()))
	return fmt.Sprintf("(%s, %s)", view, cqList(sts)), tag[:len(tag)-1], true
}

// caSubjectProbes: bare certificate values for the verdicts the population does not reach (an empty subject without
// subjectAltName; notBefore after notAfter; lower-case and empty country codes; a CA without organization).
func caSubjectProbes() []*x509.Certificate {
	t0 := time.Date(2024, 3, 1, 0, 0, 0, 0, time.UTC)
	mk := func(f func(c *x509.Certificate)) *x509.Certificate {
		c := &x509.Certificate{NotBefore: t0, NotAfter: t0.Add(24 * time.Hour)}
		f(c)
		return c
	}
	return []*x509.Certificate{
		mk(func(c *x509.Certificate) {}),
		mk(func(c *x509.Certificate) { c.NotAfter = t0.Add(-time.Second) }),
		mk(func(c *x509.Certificate) { c.NotAfter = t0 }),
		mk(func(c *x509.Certificate) {
			e := pkix.Extension{Id: util.SubjectAlternateNameOID, Value: []byte{0x30, 0x00}}
			c.Extensions = append(c.Extensions, e)
			c.ExtensionsMap = map[string]pkix.Extension{util.SubjectAlternateNameOID.String(): e}
		}),
		mk(func(c *x509.Certificate) { c.Subject.Country = []string{"us"}; c.Subject.Names = append(c.Subject.Names, pkix.AttributeTypeAndValue{Type: []int{2, 5, 4, 6}, Value: "us"}) }),
		mk(func(c *x509.Certificate) { c.Subject.Country = []string{""}; c.Subject.Organization = []string{""}; c.Subject.CommonName = "x" }),
		mk(func(c *x509.Certificate) { c.Subject.Country = []string{"US", "D1"}; c.Subject.Organization = []string{"O"}; c.Subject.OrganizationalUnit = []string{"OU"} }),
	}
}
