package main

import (
	"fmt"

	"github.com/zmap/zlint/v3"
	"github.com/zmap/zlint/v3/lint"
	"github.com/zmap/zlint/v3/util"
)

func init() {
	commands["probe"] = func(args []string) error {
		_ = zlint.Version
		fmt.Println(len(lint.GlobalRegistry().Names()), len(util.VerifTLDMap()), len(util.VerifReservedNetworks()), len(util.VerifPrimes()))
		d := lint.VerifDump(lint.GlobalRegistry())
		fmt.Println(len(d["cert"].Order), len(d["crl"].Order), len(d["ocsp"].Order))
		return nil
	}
}

func init() {
	commands["corpusstat"] = func(args []string) error {
		c := loadCorpus()
		fmt.Println(len(c.Certs), len(c.CRLs), len(c.OCSPs), c.Rejected)
		return nil
	}
}
