package main

import (
	"fmt"

	"github.com/zmap/zlint/v3"
	"github.com/zmap/zlint/v3/lint"
	"github.com/zmap/zlint/v3/util"
)

func init() {
	commands["probe"] = func(args []string) error {
		_ = zlint.Version
		fmt.Println(len(lint.GlobalRegistry().Names()), len(util.VerifTLDMap()), len(util.VerifReservedNetworks()), len(util.VerifPrimes()))
		d := lint.VerifDump(lint.GlobalRegistry())
		fmt.Println(len(d["cert"].Order), len(d["crl"].Order), len(d["ocsp"].Order))
		return nil
	}
}

func init() {
	commands["corpusstat"] = func(args []string) error {
		c := loadCorpus()
		fmt.Println(len(c.Certs), len(c.CRLs), len(c.OCSPs), c.Rejected)
		return nil
	}
}

func init() {
	commands["dbgperm"] = func(args []string) error {
		c := loadCorpus()
		for _, cc := range c.Certs {
			if cc.File != args[0] {
				continue
			}
			der2, n, err := permuteGeneralNames(cc.DER, oidSAN, func(n int) []int { p := make([]int, n); for i := range p { p[i] = n - 1 - i }; return p })
			fmt.Println(n, err, len(cc.DER), len(der2))
			c2, err := zx509ParseForDebug(der2)
			fmt.Println(err)
			if c2 != nil {
				fmt.Println(cc.Cert.NotBefore, c2.NotBefore, cc.Cert.DNSNames, c2.DNSNames, cc.Cert.Version, c2.Version, len(cc.Cert.Extensions), len(c2.Extensions))
			}
		}
		return nil
	}
}

func init() {
	commands["dbgperm2"] = func(args []string) error {
		c := loadCorpus()
		for _, cc := range c.Certs {
			if cc.File != args[0] {
				continue
			}
			der2, _, _ := permuteGeneralNames(cc.DER, oidSAN, func(n int) []int { p := make([]int, n); for i := range p { p[i] = n - 1 - i }; return p })
			c2, _ := zx509ParseForDebug(der2)
			a, b := statusVector(cc.Cert), statusVector(c2)
			for n, s := range a {
				if b[n] != s {
					fmt.Println(n, s, b[n])
				}
			}
			c3, _ := zx509ParseForDebug(cc.DER)
			a3 := statusVector(c3)
			for n, s := range a {
				if a3[n] != s {
					fmt.Println("reparse differs", n, s, a3[n])
				}
			}
		}
		return nil
	}
}
