package main

import (
	"fmt"
	"strings"

	"crypto/x509/pkix"
	"encoding/asn1"

	zasn1 "github.com/zmap/zcrypto/encoding/asn1"
	"github.com/zmap/zlint/v3"
	"github.com/zmap/zlint/v3/util"
)

// stream "qc": util.ParseQcStatem on extension values built from abstract item lists (Kernels.QcStatem): the dynamic type
// of the result, IsPresent() and whether GetErrorInfo() is empty.  Six ETSI lints assert the result's type without the
// comma-ok form when it is present and carries no error text.

type qcItem struct {
	bad   bool
	kind  int // 0 compliance 1 limit 2 retention 3 sscd 4 pds 5 type 6 other
	clean bool
	der   []byte
	what  string
}

var qcKindCoq = []string{"KCompliance", "KLimit", "KRetention", "KSscd", "KPds", "KType", "KOther"}

func qcOid(kind int) []byte {
	if kind == 6 {
		return encTLV(0x06, []byte{0x2b, 0x06, 0x01, 0x04, 0x01, 0x83, 0xb2, 0x03, 0x05})
	}
	return encTLV(0x06, []byte{0x04, 0x00, 0x8e, 0x46, 0x01, byte(kind + 1)})
}

func qcItems() []qcItem {
	st := func(kind int, clean bool, what string, info ...[]byte) qcItem {
		return qcItem{false, kind, clean, encTLV(0x30, concat(append([][]byte{qcOid(kind)}, info...)...)), what}
	}
	int1 := func(n byte) []byte { return []byte{0x02, 0x01, n} }
	pdsLoc := func(urlTag byte, lang string) []byte {
		return encTLV(0x30, concat(encTLV(urlTag, []byte("https://example.com/pds.pdf")), encTLV(0x13, []byte(lang))))
	}
	return []qcItem{
		{true, -1, false, int1(5), "INTEGER where a statement is expected (the outer sequence of sequences does not decode)"},
		{true, 0, false, encTLV(0x30, int1(5)), "SEQUENCE { INTEGER }"},
		st(0, true, "compliance"),
		st(0, false, "compliance with an info field", []byte{0x05, 0x00}),
		st(1, true, "limit, numeric currency", encTLV(0x30, concat([]byte{0x02, 0x02, 0x03, 0xd2}, int1(1), int1(2)))),
		st(1, true, "limit, alphabetic currency", encTLV(0x30, concat(encTLV(0x13, []byte("EUR")), int1(1), int1(2)))),
		st(1, false, "limit with an INTEGER info", int1(5)),
		st(2, true, "retention period", int1(10)),
		st(2, false, "retention period with a string info", encTLV(0x0c, []byte("ten"))),
		st(3, true, "sscd"),
		st(3, false, "sscd with an info field", []byte{0x05, 0x00}),
		st(4, true, "pds, one location", encTLV(0x30, pdsLoc(0x16, "en"))),
		st(4, true, "pds, two locations", encTLV(0x30, concat(pdsLoc(0x16, "en"), pdsLoc(0x16, "de")))),
		st(4, true, "pds, empty list", encTLV(0x30, nil)),
		st(4, false, "pds with an INTEGER info", int1(5)),
		st(4, false, "pds whose location is not a sequence", encTLV(0x30, int1(5))),
		st(5, true, "type, one oid", encTLV(0x30, encTLV(0x06, []byte{0x04, 0x00, 0x8e, 0x46, 0x01, 0x06, 0x03}))),
		st(5, true, "type, empty list", encTLV(0x30, nil)),
		st(5, false, "type with an INTEGER info", int1(5)),
		st(6, true, "unknown statement", []byte{0x05, 0x00}),
		st(6, true, "unknown statement without info"),
	}
}

func genQc(out *Output, rng *Rng) {
	pool := qcItems()
	n := 260
	if tier() == "thorough" {
		n = 4000
	}
	dynOf := func(r util.EtsiQcStmtIf) int {
		switch r.(type) {
		case util.Etsi421QualEuCert:
			return 0
		case util.EtsiQcLimitValue:
			return 1
		case util.EtsiQcRetentionPeriod:
			return 2
		case util.EtsiQcSscd:
			return 3
		case util.EtsiQcPds:
			return 4
		case util.Etsi423QcType:
			return 5
		}
		return -1
	}
	soughtOid := func(k int) zasn1.ObjectIdentifier {
		if k == 6 {
			return zasn1.ObjectIdentifier{1, 3, 6, 1, 4, 1, 55555, 5}
		}
		return zasn1.ObjectIdentifier{0, 4, 0, 1862, 1, k + 1}
	}
	seen := map[string]bool{}
	panics := 0
	for i := 0; i < n; i++ {
		var items []qcItem
		switch {
		case i < len(pool):
			items = []qcItem{pool[i]}
		default:
			for k := rng.Intn(5); k > 0; k-- {
				it := pool[rng.Intn(len(pool))]
				if it.bad && rng.Intn(3) != 0 {
					it = pool[2+rng.Intn(len(pool)-2)]
				}
				items = append(items, it)
			}
		}
		var ders [][]byte
		var coqItems, whats []string
		for _, it := range items {
			ders = append(ders, it.der)
			whats = append(whats, it.what)
			if it.bad {
				coqItems = append(coqItems, "IBad")
			} else {
				coqItems = append(coqItems, fmt.Sprintf("(IStmt %s %s)", qcKindCoq[it.kind], cqBool(it.clean)))
			}
		}
		ext := encTLV(0x30, concat(ders...))
		outer := "(Some " + cqTyped(coqItems, "item") + ")"
		for _, it := range items {
			if it.bad && it.kind == -1 {
				outer = "None" // an element that is not a SEQUENCE: the outer decode fails
			}
		}
		switch i % 23 {
		case 7:
			ext, outer = append(append([]byte{}, ext...), 0x05, 0x00), "None"
		case 11:
			ext, outer = []byte{0x05, 0x00}, "None"
		}
		for sought := 0; sought < 7; sought++ {
			r := util.ParseQcStatem(ext, soughtOid(sought))
			tick()
			dyn, present, noerr := dynOf(r), r.IsPresent(), r.GetErrorInfo() == ""
			desc := map[string]interface{}{"extension_value": hexs(ext), "statements": whats, "sought": qcKindCoq[sought], "dynamic_type": fmt.Sprintf("%T", r), "present": present, "error": r.GetErrorInfo()}
			// direct: what the asserting lints rely on
			if present && noerr && sought != 6 && dyn != sought {
				out.Violate("C02|qc-assert-would-panic:"+qcKindCoq[sought], fmt.Sprintf("util.ParseQcStatem returns a %T that is present and carries no error text when %s is sought: the ETSI lints' unchecked type assertion panics", r, qcKindCoq[sought]), desc, qcKindCoq[sought], fmt.Sprintf("%T", r))
			}
			dynCoq := "None"
			if dyn >= 0 {
				dynCoq = "(Some " + qcKindCoq[dyn] + ")"
			}
			term := fmt.Sprintf("(%s, %s, (mkR %s %s %s))", outer, qcKindCoq[sought], dynCoq, cqBool(present), cqBool(noerr))
			if !seen[term] {
				seen[term] = true
				out.Add("qc", Case{Coq: term, Tag: fmt.Sprintf("%d/%v/%v", dyn, present, noerr), Desc: desc})
			}
		}
		// and through a certificate: no lint may panic on the extension
		if i%4 == 0 || i < len(pool) {
			t := leafTemplate()
			t.ExtraExtensions = append(t.ExtraExtensions, pkix.Extension{Id: asn1.ObjectIdentifier{1, 3, 6, 1, 5, 5, 7, 1, 3}, Value: ext})
			if der, c, err := issue(t, nil); err == nil {
				func() {
					defer func() {
						if pv := recover(); pv != nil {
							panics++
							out.Violate("C02|panic-escapes:qc", fmt.Sprintf("LintCertificate panicked on a certificate with qcStatements %s: %v", strings.Join(whats, " / "), pv), map[string]interface{}{"der": hexs(der)}, nil, nil)
						}
					}()
					if m := panicMarkers(zlint.LintCertificate(c)); len(m) > 0 {
						out.Violate("C02|panicked:qc", m[0], map[string]interface{}{"der": hexs(der), "statements": whats}, nil, nil)
					}
				}()
			}
		}
	}
	out.Stats["qc_extension_values"] = n
}
