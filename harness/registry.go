package main

import (
	"bytes"
	"fmt"
	"reflect"
	"regexp"
	"sort"
	"strings"

	"github.com/zmap/zlint/v3/lint"
)

type LintInfo struct {
	Kind, Name, Desc, Cite, Src string
	Eff, Ineff                  string // instants (Coq Z literal)
	EffZero, IneffZero          bool
	EffBeforeIneff              bool
	CtorNil, InstNil            bool
	Configurable                bool
}

func registryInfo(r lint.Registry) []LintInfo {
	var out []LintInfo
	for _, l := range r.CertificateLints().Lints() {
		li := LintInfo{Kind: "cert", Name: l.Name, Desc: l.Description, Cite: l.Citation, Src: string(l.Source),
			Eff: instantZ(l.EffectiveDate), Ineff: instantZ(l.IneffectiveDate), EffZero: l.EffectiveDate.IsZero(), IneffZero: l.IneffectiveDate.IsZero(),
			EffBeforeIneff: l.EffectiveDate.Before(l.IneffectiveDate), CtorNil: l.Lint == nil}
		if l.Lint != nil {
			i := l.Lint()
			li.InstNil = i == nil || (reflect.ValueOf(i).Kind() == reflect.Ptr && reflect.ValueOf(i).IsNil())
			_, li.Configurable = i.(lint.Configurable)
		}
		out = append(out, li)
	}
	for _, l := range r.OcspResponseLints().Lints() {
		li := LintInfo{Kind: "ocsp", Name: l.Name, Desc: l.Description, Cite: l.Citation, Src: string(l.Source),
			Eff: instantZ(l.EffectiveDate), Ineff: instantZ(l.IneffectiveDate), EffZero: l.EffectiveDate.IsZero(), IneffZero: l.IneffectiveDate.IsZero(),
			EffBeforeIneff: l.EffectiveDate.Before(l.IneffectiveDate), CtorNil: l.Lint == nil}
		if l.Lint != nil {
			i := l.Lint()
			li.InstNil = i == nil || (reflect.ValueOf(i).Kind() == reflect.Ptr && reflect.ValueOf(i).IsNil())
			_, li.Configurable = i.(lint.Configurable)
		}
		out = append(out, li)
	}
	for _, l := range r.RevocationListLints().Lints() {
		li := LintInfo{Kind: "crl", Name: l.Name, Desc: l.Description, Cite: l.Citation, Src: string(l.Source),
			Eff: instantZ(l.EffectiveDate), Ineff: instantZ(l.IneffectiveDate), EffZero: l.EffectiveDate.IsZero(), IneffZero: l.IneffectiveDate.IsZero(),
			EffBeforeIneff: l.EffectiveDate.Before(l.IneffectiveDate), CtorNil: l.Lint == nil}
		if l.Lint != nil {
			i := l.Lint()
			li.InstNil = i == nil || (reflect.ValueOf(i).Kind() == reflect.Ptr && reflect.ValueOf(i).IsNil())
			_, li.Configurable = i.(lint.Configurable)
		}
		out = append(out, li)
	}
	return out
}

// coqRegistryEntries renders the registration-order entries the Coq model rebuilds the registry from
func coqRegistryEntries(info []LintInfo) []string {
	items := make([]string, len(info))
	for i, l := range info {
		items[i] = fmt.Sprintf("(%s, %s, %s)", kindCoq[l.Kind], cqBytes(l.Name), cqBytes(l.Src))
	}
	return items
}

type FilterSpec struct {
	Regex          string // "" = none
	IncludeNames   []string
	ExcludeNames   []string
	IncludeSources []string
	ExcludeSources []string
	NilLists       bool
}

func (f FilterSpec) opts() lint.FilterOptions {
	var o lint.FilterOptions
	if f.Regex != "" {
		o.NameFilter = regexp.MustCompile(f.Regex)
	}
	conv := func(l []string) []string {
		if len(l) == 0 && !f.NilLists {
			return []string{}
		}
		return l
	}
	o.IncludeNames = conv(f.IncludeNames)
	o.ExcludeNames = conv(f.ExcludeNames)
	for _, s := range f.IncludeSources {
		o.IncludeSources = append(o.IncludeSources, lint.LintSource(s))
	}
	for _, s := range f.ExcludeSources {
		o.ExcludeSources = append(o.ExcludeSources, lint.LintSource(s))
	}
	if len(o.IncludeSources) == 0 && !f.NilLists {
		o.IncludeSources = lint.SourceList{}
	}
	return o
}

func (f FilterSpec) Coq(allNames []string) string {
	nf := "None"
	if f.Regex != "" {
		re := regexp.MustCompile(f.Regex)
		var m []string
		for _, n := range allNames {
			if re.MatchString(n) {
				m = append(m, n)
			}
		}
		nf = fmt.Sprintf("(Some (fun n => mem n %s))", cqBytesList(m))
	}
	return fmt.Sprintf("(mkOpts %s %s %s %s %s)", nf, cqBytesList(f.IncludeNames), cqBytesList(f.ExcludeNames),
		cqBytesList(f.IncludeSources), cqBytesList(f.ExcludeSources))
}

func namesOfKind(r lint.Registry) (c, o, l []string) {
	for _, x := range r.CertificateLints().Lints() {
		c = append(c, x.Name)
	}
	for _, x := range r.OcspResponseLints().Lints() {
		o = append(o, x.Name)
	}
	for _, x := range r.RevocationListLints().Lints() {
		l = append(l, x.Name)
	}
	return
}

func observeFilter(g lint.Registry, f FilterSpec) (coq string, class string, fr lint.Registry, errText string) {
	tick()
	var err error
	var pv interface{}
	func() {
		defer func() { pv = recover() }()
		fr, err = g.Filter(f.opts())
	}()
	if pv != nil {
		return "FOther", "panic", nil, fmt.Sprint(pv)
	}
	if err != nil {
		msg := err.Error()
		switch {
		case strings.HasPrefix(msg, "unknown lint name "):
			var n string
			fmt.Sscanf(msg[len("unknown lint name "):], "%q", &n)
			return "(FUnknown " + cqBytes(n) + ")", "unknown", nil, msg
		case strings.Contains(msg, "cannot be used at the same time"):
			return "FExcl", "exclusive", nil, msg
		}
		return "FOther", "other-error", nil, msg
	}
	if fr == g {
		return "FSame", "same", fr, ""
	}
	c, o, l := namesOfKind(fr)
	var srcs []string
	for _, s := range fr.Sources() {
		srcs = append(srcs, string(s))
	}
	sort.Strings(srcs)
	return fmt.Sprintf("(FOk %s %s %s %s)", cqBytesList(c), cqBytesList(o), cqBytesList(l), cqBytesList(srcs)), "ok", fr, ""
}

var regexPool = []string{"^e_", "^w_", "^n_", "crl", "ocsp", "rsa", "^e_sub_c", "dnsname", "^$", ".", "_ca_", "smime", "e_ev_.*", "(?i)E_RSA", "x{3}", "^w_.*valid", "key_usage$"}

// derivedRegex: expressions built from the registered names themselves: a whole name or a fragment of one, anchored at
// neither, one or both ends in each spelling of an anchor, quoted, as one branch of an alternation, with flags.  An
// anchored literal that is a fragment of longer names must select nothing but an exact match.
func derivedRegex(rng *Rng, names []string) string {
	n := pick(rng, names)
	lit := n
	switch rng.Intn(4) {
	case 0:
		a := rng.Intn(len(n))
		b := a + 1 + rng.Intn(len(n)-a)
		lit = n[a:b]
	case 1:
		if i := strings.LastIndex(n, "_"); i > 2 {
			lit = n[:i]
		}
	}
	q := regexp.QuoteMeta(lit)
	switch rng.Intn(12) {
	case 0:
		return "^" + q + "$"
	case 1:
		return "\\A" + q + "\\z"
	case 2:
		return "^" + q
	case 3:
		return q + "$"
	case 4:
		return "^(?:" + q + ")$"
	case 5:
		return "^" + q + "$|^" + regexp.QuoteMeta(pick(rng, names)) + "$"
	case 6:
		return "(?i)^" + strings.ToUpper(q) + "$"
	case 7:
		return "^" + q + "\\z"
	case 8:
		return "\\A" + q
	case 9:
		return "(?m)^" + q + "$"
	case 10:
		return "\\b" + q + "\\b"
	}
	return q
}

// degenerateTwins: option sets that differ from f only on a dimension f leaves open, by a list that selects nothing on
// that dimension (every included entry is also excluded) or that is present but empty
func degenerateTwins(rng *Rng, f FilterSpec, names, srcs []string) []FilterSpec {
	var out []FilterSpec
	if len(f.IncludeSources) == 0 && len(f.ExcludeSources) == 0 {
		a, b := pick(rng, srcs), pick(rng, srcs)
		t := f
		t.NilLists = false
		t.IncludeSources, t.ExcludeSources = []string{a}, []string{a, b}
		out = append(out, t)
		t2 := f
		t2.NilLists = false
		t2.IncludeSources, t2.ExcludeSources = []string{}, []string{}
		out = append(out, t2)
	}
	if len(f.IncludeNames) == 0 && len(f.ExcludeNames) == 0 && f.Regex == "" {
		a := pick(rng, names)
		t := f
		t.IncludeNames, t.ExcludeNames = []string{a}, []string{a, pick(rng, names)}
		out = append(out, t)
	}
	return out
}

func randomFilterSpec(rng *Rng, names, srcs []string, few bool) FilterSpec {
	var f FilterSpec
	f.NilLists = rng.Bool()
	blanks := []string{"", "", "", " ", "\t", " \n", " ", " "}
	pickName := func() string {
		n := pick(rng, names)
		switch rng.Intn(60) {
		case 0:
			return n + "x"
		case 1:
			return strings.ToUpper(n)
		case 2:
			return ""
		case 3:
			return "zz_unknown"
		}
		return pick(rng, blanks) + n + pick(rng, blanks)
	}
	pickSrc := func() string {
		switch rng.Intn(10) {
		case 0:
			return "NoSuchSource"
		case 1:
			return "Unknown"
		case 2:
			return strings.ToLower(pick(rng, srcs))
		case 3:
			// a listed source with blanks around it is the source of no lint (a filter compares sources exactly)
			return pick(rng, []string{" ", "\n", "\t", ""}) + pick(rng, srcs) + pick(rng, []string{" ", "\n", "", "\r\n"})
		}
		return pick(rng, srcs)
	}
	mode := rng.Intn(10)
	if mode < 3 {
		f.Regex = pick(rng, regexPool)
		if rng.Intn(2) == 0 {
			f.Regex = derivedRegex(rng, names)
		}
		if rng.Intn(8) == 0 {
			f.IncludeNames = []string{pickName()}
		}
		if rng.Intn(8) == 0 {
			f.ExcludeNames = []string{pickName()}
		}
	} else {
		if rng.Intn(3) != 0 || few {
			for i := rng.Intn(6); i >= 0; i-- {
				f.IncludeNames = append(f.IncludeNames, pickName())
			}
		}
		if rng.Intn(3) == 0 {
			for i := rng.Intn(4); i >= 0; i-- {
				f.ExcludeNames = append(f.ExcludeNames, pickName())
			}
		}
	}
	if rng.Intn(3) == 0 {
		for i := rng.Intn(3); i >= 0; i-- {
			f.IncludeSources = append(f.IncludeSources, pickSrc())
		}
	}
	if rng.Intn(4) == 0 {
		for i := rng.Intn(3); i >= 0; i-- {
			f.ExcludeSources = append(f.ExcludeSources, pickSrc())
		}
	}
	if rng.Intn(40) == 0 {
		f = FilterSpec{NilLists: rng.Bool()}
	}
	return f
}

// C08 direct monitor: the documented selection computed independently (spec in Go) against the result
func specSelected(f FilterSpec, name, src string) bool {
	trimIn := func(l []string, n string) bool {
		for _, x := range l {
			if strings.TrimSpace(x) == n {
				return true
			}
		}
		return false
	}
	if contains(f.ExcludeSources, src) {
		return false
	}
	if len(f.IncludeSources) > 0 && !contains(f.IncludeSources, src) {
		return false
	}
	if f.Regex != "" && !regexp.MustCompile(f.Regex).MatchString(name) {
		return false
	}
	if trimIn(f.ExcludeNames, name) {
		return false
	}
	if len(f.IncludeNames) > 0 && !trimIn(f.IncludeNames, name) {
		return false
	}
	return true
}

func registrySnapshot(g lint.Registry) string {
	var b bytes.Buffer
	g.WriteJSON(&b)
	return strings.Join(g.Names(), ",") + "\n" + b.String()
}

func init() {
	commands["registry"] = func(args []string) error {
		out := NewOutput()
		g := lint.GlobalRegistry()
		info := registryInfo(g)
		out.Data["lints"] = info
		out.Data["entries_coq"] = coqRegistryEntries(info)
		out.Data["names"] = g.Names()
		var srcs []string
		for _, s := range g.Sources() {
			srcs = append(srcs, string(s))
		}
		sort.Strings(srcs)
		out.Data["sources"] = srcs
		out.Data["tables"] = lint.VerifDump(g)
		return out.Emit()
	}
	commands["c08"] = func(args []string) error {
		out := NewOutput()
		rng := NewRng(seedFromEnv(), "c08")
		late := lateRegistrationPrelude()
		reportLate(out, "C08", "filter", "names")
		g := lint.GlobalRegistry()
		for _, n := range late {
			if !contains(g.Names(), n) {
				out.Violate("C08|late-lint-not-listed:"+n, "a lint registered after the registry's first use is not listed by Names()", n, nil, nil)
			}
		}
		cfg, _ := lint.NewConfigFromString("[e_rsa_fermat_factorization]\nRounds = 7\n")
		g.SetConfiguration(cfg)
		info := registryInfo(g)
		out.Data["entries_coq"] = coqRegistryEntries(info)
		byName := map[string]LintInfo{}
		for _, l := range info {
			byName[l.Name] = l
		}
		names := g.Names()
		var srcs []string
		for _, s := range g.Sources() {
			srcs = append(srcs, string(s))
		}
		sort.Strings(srcs)
		before := registrySnapshot(g)
		n := 160
		if tier() == "thorough" {
			n = 3000
		}
		specs := []FilterSpec{{NilLists: true}, {NilLists: false}, {Regex: "^e_"}, {IncludeSources: []string{"RFC6960"}}, {ExcludeSources: srcs},
			{IncludeNames: []string{names[0], names[0], " " + names[1]}}, {Regex: ".", IncludeNames: []string{names[3]}},
			{Regex: ".", ExcludeNames: []string{"nosuch"}}, {IncludeNames: []string{"nosuch", "alsonot"}, ExcludeNames: []string{"third"}},
			{IncludeSources: []string{"CABF_BR"}, ExcludeSources: []string{"CABF_BR"}}}
		// options that are not empty and yet select every lint
		specs = append(specs, FilterSpec{Regex: "^[enw]_"}, FilterSpec{Regex: "."}, FilterSpec{ExcludeSources: []string{"Unknown"}}, FilterSpec{IncludeSources: srcs}, FilterSpec{IncludeNames: names})
		// sources spelt with blanks around them select (and drop) nothing
		for i, sname := range srcs {
			specs = append(specs, FilterSpec{ExcludeSources: []string{" " + sname}}, FilterSpec{IncludeSources: []string{sname + " "}})
			if i%3 == 0 {
				specs = append(specs, FilterSpec{IncludeSources: []string{sname}, ExcludeSources: []string{" " + sname + " "}}, FilterSpec{IncludeSources: []string{sname + "\n", sname}})
			}
		}
		// anchored literals: a name that is a fragment of longer names, and a fragment that is no name at all
		{
			k := 0
			for _, a := range names {
				for _, b := range names {
					if a != b && strings.Contains(b, a) && k < 6 {
						specs = append(specs, FilterSpec{Regex: "^" + a + "$"}, FilterSpec{Regex: "\\A" + a + "\\z"})
						k++
						break
					}
				}
			}
			specs = append(specs, FilterSpec{Regex: "^" + names[0][:len(names[0])-1] + "$"}, FilterSpec{Regex: "^" + names[0][2:] + "$"}, FilterSpec{Regex: "^crl$"}, FilterSpec{Regex: "^" + names[5] + "$"})
		}
		// direct: a name list entry that is not a registered lint name after trimming - blank entries included - is an
		// error, for both lists, alone or next to valid names and other options
		for _, bad := range []string{"", " ", "\t", "  \n", "nosuchlint", names[0] + "x", strings.ToUpper(names[0]), names[0] + " " + names[1], ","} {
			if contains(names, strings.TrimSpace(bad)) {
				continue
			}
			for what, o := range map[string]lint.FilterOptions{
				"IncludeNames alone":                 {IncludeNames: []string{bad}},
				"ExcludeNames alone":                 {ExcludeNames: []string{bad}},
				"IncludeNames after a valid name":    {IncludeNames: []string{names[0], bad}},
				"ExcludeNames before a valid name":   {ExcludeNames: []string{bad, names[1]}},
				"IncludeNames with an IncludeSource": {IncludeNames: []string{bad}, IncludeSources: lint.SourceList{lint.RFC5280}},
			} {
				if fr, err := g.Filter(o); err == nil {
					n := -1
					if fr != nil {
						n = len(fr.Names())
					}
					out.Violate("C08|unknown-name-accepted", fmt.Sprintf("Filter accepts the unregistered name %q (%s) and returns a registry with %d lints", bad, what, n),
						map[string]interface{}{"name": bad, "options": what}, "an unknown-lint-name error", fmt.Sprintf("registry with %d lints", n))
				}
			}
		}
		// filtering a registry that is itself the result of a filter: a name that the sub-registry does not hold is an
		// unknown name there (whatever the registry it came from holds), a name it holds selects; sources likewise
		for _, src := range srcs {
			sub, err := g.Filter(lint.FilterOptions{IncludeSources: lint.SourceList{lint.LintSource(src)}})
			if err != nil || sub == nil || len(sub.Names()) == 0 {
				continue
			}
			inSub := map[string]bool{}
			for _, n := range sub.Names() {
				inSub[n] = true
			}
			outside := ""
			for _, n := range names {
				if !inSub[n] {
					outside = n
					break
				}
			}
			inside := sub.Names()[0]
			if outside != "" {
				for what, o := range map[string]lint.FilterOptions{"IncludeNames": {IncludeNames: []string{outside}}, "ExcludeNames": {ExcludeNames: []string{outside}},
					"IncludeNames with a held name": {IncludeNames: []string{inside, outside}}, "ExcludeNames with a held name": {ExcludeNames: []string{inside, outside}}} {
					if fr, err := sub.Filter(o); err == nil {
						n := -1
						if fr != nil {
							n = len(fr.Names())
						}
						out.Violate("C08|nested-unknown-name-accepted", fmt.Sprintf("the registry filtered to source %s does not hold %s, yet filtering it again with %s naming that lint is accepted (%d lints selected) instead of being an unknown-name error", src, outside, what, n),
							map[string]interface{}{"first": "IncludeSources " + src, "second": what, "name": outside}, "unknown lint name error", "accepted")
					}
				}
			}
			if fr, err := sub.Filter(lint.FilterOptions{IncludeNames: []string{inside}}); err != nil || len(fr.Names()) != 1 || fr.Names()[0] != inside {
				out.Violate("C08|nested-include", "filtering the registry of source "+src+" again by a name it holds does not select exactly that lint", map[string]interface{}{"source": src, "name": inside}, nil, nil)
			}
			if fr, err := sub.Filter(lint.FilterOptions{ExcludeNames: []string{inside}}); err != nil || len(fr.Names()) != len(sub.Names())-1 {
				out.Violate("C08|nested-exclude", "filtering the registry of source "+src+" again excluding a name it holds does not remove exactly that lint", map[string]interface{}{"source": src, "name": inside}, nil, nil)
			}
		}
		for _, ln := range late {
			specs = append(specs, FilterSpec{IncludeNames: []string{ln}}, FilterSpec{Regex: "verif_late"}, FilterSpec{ExcludeNames: []string{ln}}, FilterSpec{IncludeSources: []string{byName[ln].Src}},
				FilterSpec{ExcludeSources: []string{"Mozilla"}})
		}
		for i := 0; i < n; i++ {
			f := randomFilterSpec(rng, names, srcs, i%3 != 0)
			specs = append(specs, f)
			// histories: the same registry is asked again with options that differ from f only by a degenerate list (present
			// but empty, or included entries all excluded as well) - before and after f itself
			if i%2 == 0 {
				for _, tw := range degenerateTwins(rng, f, names, srcs) {
					specs = append(specs, tw, f)
				}
			}
		}
		seen := map[string]bool{}
		for _, f := range specs {
			obs, class, fr, errText := observeFilter(g, f)
			term := fmt.Sprintf("(%s, %s)", f.Coq(names), obs)
			if !seen[term] {
				seen[term] = true
				nsel := 0
				if fr != nil {
					nsel = len(fr.Names())
				}
				out.Add("filter", Case{Coq: term, Tag: fmt.Sprintf("%s/%v/%d", class, f.Regex != "", bucket(nsel)),
					Desc: map[string]interface{}{"options": f, "class": class, "error": errText, "selected": nsel}})
			}
			// direct monitors of the property on the real result
			if class == "panic" {
				out.Violate("C08|filter-panics", "Filter panicked: "+errText, f, nil, nil)
			}
			if class == "same" && !f.opts().Empty() {
				out.Violate("C08|filtered-is-source", "Filter with options that are not empty returned the registry that was filtered, not a new one: configuring or extending either handle changes the other", f, "a new registry", "the source registry itself")
			}
			if class == "other-error" {
				out.Violate("C08|filter-undocumented-error", "Filter rejects an option set with an error that is neither 'unknown lint name' nor the name-pattern exclusivity error: "+errText, f, "a registry or a documented error", errText)
			}
			if class == "ok" {
				sel := map[string]bool{}
				for _, nm := range fr.Names() {
					sel[nm] = true
				}
				for _, nm := range names {
					want := specSelected(f, nm, byName[nm].Src)
					if want != sel[nm] {
						out.Violate("C08|selection:"+nm, fmt.Sprintf("lint %s selected=%v but the documented rule says %v", nm, sel[nm], want), f, want, sel[nm])
						break
					}
				}
				// kind and metadata kept: same lint values
				for _, l := range fr.CertificateLints().Lints() {
					if g.CertificateLints().ByName(l.Name) != l {
						out.Violate("C08|lint-value:"+l.Name, "filtered registry holds a different lint value than the source registry", f, nil, nil)
					}
				}
				for _, l := range fr.RevocationListLints().Lints() {
					if g.RevocationListLints().ByName(l.Name) != l {
						out.Violate("C08|lint-value:"+l.Name, "filtered registry holds a different CRL lint value", f, nil, nil)
					}
				}
				for _, l := range fr.OcspResponseLints().Lints() {
					if g.OcspResponseLints().ByName(l.Name) != l {
						out.Violate("C08|lint-value:"+l.Name, "filtered registry holds a different OCSP lint value", f, nil, nil)
					}
				}
				if fr.GetConfiguration() != g.GetConfiguration() {
					out.Violate("C08|config-not-inherited", "filtered registry does not carry the source registry's configuration", f, nil, nil)
				}
				if !sort.StringsAreSorted(fr.Names()) {
					out.Violate("C08|names-unsorted", "Names() of the filtered registry is not sorted", f, nil, nil)
				}
				// a new registry: configuring it must leave the source registry's configuration alone (options that happen
				// to select every lint included)
				if !f.opts().Empty() {
					before := g.GetConfiguration()
					if probe, err := lint.NewConfigFromString("[e_rsa_fermat_factorization]\nRounds = 3\n"); err == nil {
						fr.SetConfiguration(probe)
						if g.GetConfiguration() != before {
							out.Violate("C08|filtered-is-source", fmt.Sprintf("configuring the registry returned by Filter changed the configuration of the registry that was filtered (the options select %d of %d lints)", len(fr.Names()), len(names)), f, "an independent registry", "the source registry itself")
							g.SetConfiguration(before)
						}
					}
				}
			}
			if class == "unknown" || class == "exclusive" {
				// the documented error conditions
				anyUnknown := false
				for _, nm := range append(append([]string{}, f.ExcludeNames...), f.IncludeNames...) {
					if _, ok := byName[strings.TrimSpace(nm)]; !ok {
						anyUnknown = true
					}
				}
				if class == "unknown" && !anyUnknown {
					out.Violate("C08|spurious-unknown", "Filter reports an unknown name but all names are known: "+errText, f, nil, nil)
				}
				if class == "exclusive" && (anyUnknown || f.Regex == "" || len(f.IncludeNames)+len(f.ExcludeNames) == 0) {
					out.Violate("C08|spurious-exclusive", "Filter reports the exclusivity error outside its documented condition", f, nil, nil)
				}
			}
			if after := registrySnapshot(g); after != before {
				out.Violate("C08|source-registry-changed", "the source registry changed while filtering", f, nil, nil)
				before = after
			}
		}
		out.Stats["filters"] = len(specs)
		return out.Emit()
	}
}

func bucket(n int) int {
	switch {
	case n == 0:
		return 0
	case n <= 3:
		return 3
	case n <= 30:
		return 30
	}
	return 400
}
