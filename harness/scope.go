package main

import (
	"fmt"
	"strings"

	"github.com/zmap/zcrypto/encoding/asn1"
	"github.com/zmap/zcrypto/x509"
	"github.com/zmap/zcrypto/x509/pkix"
	"github.com/zmap/zlint/v3/lint"
	"github.com/zmap/zlint/v3/util"
)

func cqOid(o asn1.ObjectIdentifier) string {
	parts := make([]string, len(o))
	for i, a := range o {
		parts[i] = fmt.Sprint(a)
	}
	return "[" + strings.Join(parts, ";") + "]"
}

func scopeViewCoq(c *x509.Certificate) string {
	ekus := make([]string, len(c.ExtKeyUsage))
	for i, e := range c.ExtKeyUsage {
		// symbolic roles (the model does not depend on zcrypto's enumeration values)
		switch e {
		case x509.ExtKeyUsageAny:
			ekus[i] = "0"
		case x509.ExtKeyUsageServerAuth:
			ekus[i] = "1"
		case x509.ExtKeyUsageEmailProtection:
			ekus[i] = "4"
		default:
			ekus[i] = fmt.Sprint(1000 + int(e))
		}
	}
	pols := make([]string, len(c.PolicyIdentifiers))
	for i, p := range c.PolicyIdentifiers {
		pols[i] = cqOid(p)
	}
	var smtp []string
	for _, on := range c.OtherNames {
		if on.TypeID.Equal(util.OidIdOnSmtpUtf8Mailbox) {
			smtp = append(smtp, fmt.Sprintf("%d%%nat", len(on.Value.Bytes)))
		}
	}
	return fmt.Sprintf("(mkScopeView [%s] %d%%nat %s %s %s)", strings.Join(ekus, ";"), len(c.UnknownExtKeyUsage), cqList(pols),
		cqBytesList(c.EmailAddresses), cqList(smtp))
}

func genScope(out *Output, rng *Rng) {
	seen := map[string]bool{}
	emit := func(c *x509.Certificate, desc map[string]interface{}) {
		sa, em, cs := util.IsServerAuthCert(c), util.IsEmailProtectionCert(c), util.IsCodeSigning(c.PolicyIdentifiers)
		term := fmt.Sprintf("(%s, (%s, %s, %s))", scopeViewCoq(c), cqBool(sa), cqBool(em), cqBool(cs))
		if seen[term] {
			return
		}
		seen[term] = true
		desc["observed"] = []bool{sa, em, cs}
		out.Add("scope", Case{Coq: term, Tag: fmt.Sprintf("%v%v%v", sa, em, cs), Desc: desc})
	}
	for _, cc := range loadCorpus().Certs {
		emit(cc.Cert, map[string]interface{}{"file": cc.File})
	}
	// parsed certificates of the zoo: extensions present but empty, every EKU pair, policies, e-mail names ...
	for _, zc := range certZoo() {
		c := zc.Cert
		emit(c, map[string]interface{}{"file": zc.File, "der": hexs(zc.DER)})
		// direct: the documented TLS scope - no extended key usage listed at all, serverAuth, anyExtendedKeyUsage, or a reserved TLS BR policy
		want := len(c.ExtKeyUsage) == 0 && len(c.UnknownExtKeyUsage) == 0
		for _, e := range c.ExtKeyUsage {
			if e == x509.ExtKeyUsageServerAuth || e == x509.ExtKeyUsageAny {
				want = true
			}
		}
		for _, pol := range c.PolicyIdentifiers {
			for _, br := range []asn1.ObjectIdentifier{{2, 23, 140, 1, 2, 1}, {2, 23, 140, 1, 2, 2}, {2, 23, 140, 1, 2, 3}, {2, 23, 140, 1, 1}} {
				if pol.Equal(br) {
					want = true // a reserved TLS BR policy identifier is a server-auth indication too
				}
			}
		}
		if got := util.IsServerAuthCert(c); got != want {
			out.Violate("C04|tls-scope:"+zc.Class, fmt.Sprintf("%s lists EKUs %v (+%d unknown) and is treated as in TLS scope = %v", zc.File, c.ExtKeyUsage, len(c.UnknownExtKeyUsage), got),
				map[string]interface{}{"file": zc.File, "der": hexs(zc.DER)}, want, got)
		}
	}
	// every way of obtaining a lint applies the same scope gate: the deprecated registry-level lookups (ByName / BySource,
	// which hand out the older Lint type) against the per-kind lookup, on certificates inside and outside each scope
	{
		g := lint.GlobalRegistry()
		var gated []*lint.CertificateLint
		for _, l := range g.CertificateLints().Lints() {
			if l.Source == lint.CABFBaselineRequirements || l.Source == lint.CABFSMIMEBaselineRequirements || l.Source == lint.CABFCSBaselineRequirements {
				gated = append(gated, l)
			}
		}
		zoo := certZoo()
		stepL, stepC := len(gated)/30+1, len(zoo)/40+1
		if tier() == "thorough" {
			stepL, stepC = 1, len(zoo)/200+1
		}
		legacy := 0
		for li := 0; li < len(gated); li += stepL {
			l := gated[li]
			lg := g.ByName(l.Name)
			if lg == nil {
				out.Violate("C04|legacy-lookup-missing:"+l.Name, "the registry-level ByName does not return the certificate lint "+l.Name, nil, "a lint", "nil")
				continue
			}
			for ci := li % stepC; ci < len(zoo); ci += stepC {
				c := zoo[ci].Cert
				var a, b *lint.LintResult
				func() {
					defer func() { recover() }()
					a = l.Execute(c, lint.NewEmptyConfig())
				}()
				func() {
					defer func() { recover() }()
					b = lg.Execute(c, lint.NewEmptyConfig())
				}()
				legacy++
				if a != nil && b != nil && a.Status != b.Status {
					out.Violate("C04|legacy-path-differs:"+l.Name, fmt.Sprintf("%s (source %s) reports %s on %s when run through the registry-level ByName (older Lint type) and %s through CertificateLints().ByName: the scope gate depends on how the lint was obtained",
						l.Name, l.Source, b.Status, zoo[ci].File, a.Status), map[string]interface{}{"file": zoo[ci].File, "der": hexs(zoo[ci].DER), "lint": l.Name}, a.Status.String(), b.Status.String())
					break
				}
			}
		}
		out.Stats["legacy_path_comparisons"] = legacy
	}
	ekuSets := [][]x509.ExtKeyUsage{nil, {x509.ExtKeyUsageAny}, {x509.ExtKeyUsageServerAuth}, {x509.ExtKeyUsageClientAuth},
		{x509.ExtKeyUsageEmailProtection}, {x509.ExtKeyUsageCodeSigning}, {x509.ExtKeyUsageClientAuth, x509.ExtKeyUsageEmailProtection},
		{x509.ExtKeyUsageOcspSigning, x509.ExtKeyUsageServerAuth}, {x509.ExtKeyUsageTimeStamping}}
	pols := []asn1.ObjectIdentifier{{2, 23, 140, 1, 2, 1}, {2, 23, 140, 1, 2, 2}, {2, 23, 140, 1, 2, 3}, {2, 23, 140, 1, 1},
		{2, 23, 140, 1, 3}, {2, 23, 140, 1, 4, 1}, {2, 23, 140, 1, 4}, {2, 23, 140, 1, 2}, {2, 23, 140, 1, 2, 1, 1}, {1, 2, 3, 4}}
	for a := 1; a <= 4; a++ {
		for b := 1; b <= 3; b++ {
			pols = append(pols, asn1.ObjectIdentifier{2, 23, 140, 1, 5, a, b})
		}
	}
	pols = append(pols, asn1.ObjectIdentifier{2, 23, 140, 1, 5, 5, 1}, asn1.ObjectIdentifier{2, 23, 140, 1, 5, 1, 4})
	emails := [][]string{nil, {""}, {"a@b.c"}, {"", "x@y.z"}}
	others := [][]pkix.OtherName{nil,
		{{TypeID: util.OidIdOnSmtpUtf8Mailbox, Value: asn1.RawValue{Bytes: []byte("u@x")}}},
		{{TypeID: util.OidIdOnSmtpUtf8Mailbox, Value: asn1.RawValue{Bytes: nil}}},
		{{TypeID: asn1.ObjectIdentifier{1, 3, 6, 1, 4, 1, 311, 20, 2, 3}, Value: asn1.RawValue{Bytes: []byte("upn")}}}}
	n := 0
	for _, es := range ekuSets {
		for unk := 0; unk < 2; unk++ {
			for pi := -1; pi < len(pols); pi++ {
				for _, em := range emails {
					for _, on := range others {
						c := &x509.Certificate{ExtKeyUsage: es, EmailAddresses: em, OtherNames: on}
						if unk == 1 {
							c.UnknownExtKeyUsage = []asn1.ObjectIdentifier{{1, 2, 3}}
						}
						if pi >= 0 {
							c.PolicyIdentifiers = []asn1.ObjectIdentifier{{1, 9, 9}, pols[pi]}
						}
						n++
						emit(c, map[string]interface{}{"gen": n, "ekus": es, "unknown": unk, "policy": fmt.Sprint(c.PolicyIdentifiers), "emails": em, "othernames": len(on)})
					}
				}
			}
		}
	}
	out.Stats["scope_generated"] = n
}
