package main

import (
	"fmt"

	"github.com/zmap/zcrypto/x509"
	"github.com/zmap/zlint/v3/lint"
)

var smimeKuLintNames = []string{"e_rsa_key_usage_strict", "e_rsa_key_usage_legacy_multipurpose", "e_rsa_other_key_usages", "e_ecpublickey_key_usages", "e_ec_other_key_usages", "e_edwardspublickey_key_usages"}

// smimeKuCases: the six S/MIME key-usage bodies on EVERY value of the nine key-usage bits (and the values with a tenth
// bit set): the bodies read c.KeyUsage only, so the comparison with Kernels/SmimeKu.v covers their whole domain.
func smimeKuCases(add func(term, tag string, desc map[string]interface{})) {
	for k := 0; k < 1024; k++ {
		c := &x509.Certificate{KeyUsage: x509.KeyUsage(k)}
		var sts []string
		tag := ""
		for _, n := range smimeKuLintNames {
			st := 0
			if l := lint.GlobalRegistry().CertificateLints().ByName(n); l != nil {
				func() {
					defer func() {
						if recover() != nil {
							st = -1
						}
					}()
					if r := l.Lint().Execute(c); r == nil {
						st = -2
					} else {
						st = int(r.Status)
					}
				}()
			}
			sts = append(sts, cqZ(int64(st)))
			tag += fmt.Sprintf("%d/", st)
		}
		add(fmt.Sprintf("(%s, %s)", cqZ(int64(k)), cqList(sts)), tag[:len(tag)-1], map[string]interface{}{"key_usage": k})
	}
}

var kuMaskLintNames = []string{"e_rsa_allowed_ku_ca", "e_rsa_allowed_ku_ee", "e_rsa_allowed_ku_no_encipherment_ca", "e_ecdsa_allowed_ku", "n_ecdsa_ee_invalid_ku"}

// kuMaskCases: five more key-usage bodies on every value of the nine bits (Kernels/KuMasks.v).
func kuMaskCases(add func(term, tag string, desc map[string]interface{})) {
	for k := 0; k < 1024; k++ {
		c := &x509.Certificate{KeyUsage: x509.KeyUsage(k)}
		var sts []string
		tag := ""
		for _, n := range kuMaskLintNames {
			st := 0
			if l := lint.GlobalRegistry().CertificateLints().ByName(n); l != nil {
				func() {
					defer func() {
						if recover() != nil {
							st = -1
						}
					}()
					if r := l.Lint().Execute(c); r == nil {
						st = -2
					} else {
						st = int(r.Status)
					}
				}()
			}
			sts = append(sts, cqZ(int64(st)))
			tag += fmt.Sprintf("%d/", st)
		}
		add(fmt.Sprintf("(%s, %s)", cqZ(int64(k)), cqList(sts)), tag[:len(tag)-1], map[string]interface{}{"key_usage": k})
	}
}
