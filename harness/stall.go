package main

import (
	"fmt"
	"os"
	"runtime"
	"sync/atomic"
	"time"
)

// Stall detector: "no hang" cannot be stated in a total model, so the harness watches it.  Every return of a lint
// call (and of a child process) ticks; when nothing has ticked for stallLimit the harness prints every goroutine's
// stack - the spinning function is in it - and exits with status 5, which the driver reports as a violation.
var lastTick atomic.Int64

const stallLimit = 150 * time.Second

func tick() { lastTick.Store(time.Now().UnixNano()) }

func startStallDetector() {
	tick()
	go func() {
		for {
			time.Sleep(5 * time.Second)
			if idle := time.Since(time.Unix(0, lastTick.Load())); idle > stallLimit {
				buf := make([]byte, 1<<20)
				n := runtime.Stack(buf, true)
				fmt.Fprintf(os.Stderr, "HARNESS STALL: no lint call has returned for %v (a lint that does not terminate?)\n%s\n", idle.Round(time.Second), buf[:n])
				// what was found so far (violations with their inputs included) is still worth reporting
				if o := activeOutput; o != nil {
					dump := string(buf[:n])
					if len(dump) > 12000 {
						dump = dump[:12000]
					}
					o.Data["stalled"] = dump
					o.Cases = map[string][]Case{}
					_ = o.Emit()
				}
				os.Exit(5)
			}
		}
	}()
}
