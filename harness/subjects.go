package main

import (
	stdx509 "crypto/x509"
	"encoding/asn1"
	"fmt"
	"strings"
	"time"
	"unicode/utf16"
)

// Structured subjects: certificates in every scope the lints distinguish (TLS DV/OV/IV/EV, the twelve S/MIME BR
// policies, code signing, CAs) whose subject carries REPEATED attributes, in both orders, with values drawn from
// per-attribute pools of well-formed and nearly-well-formed syntax.  The lints that parse subject attribute syntax
// (organizationIdentifier, serialNumber, jurisdiction fields, country, e-mail ...) are written for one value per
// attribute; the property quantifies over every certificate.

type attrType struct {
	name string
	oid  asn1.ObjectIdentifier
	tag  int // default string tag
	pool []string
}

var genericValues = []string{"", " ", "a", "-", "Example Inc.", "&amp;", "<b>", "é", "*.example.com", "example.com", "a@example.com", "@", "1.2.3.4", strings.Repeat("x", 70), "N/A", ".", "xn--a"}

var attrTypes = []attrType{
	{"organizationIdentifier", asn1.ObjectIdentifier{2, 5, 4, 97}, 12, []string{"VATDE-123456789", "NTRUS+CA-12345", "LEIXG-529900T8BM49AURSDO55", "INT-XX-1", "GOVUS-1", "PSDDE-BAFIN-123", "free form text", "vat", "VAT", "VATDE", "VATDE-", "NTRGB-", "-", "", "NTR", "ABCDE", "ntrgb-123", "NTRUS+ca-1", "NTRFR-12 345", "VATEL-1", "VATXI-1", "LEIDE-1"}},
	{"countryName", asn1.ObjectIdentifier{2, 5, 4, 6}, 19, []string{"US", "DE", "GB", "XX", "us", "U", "USA", "", "EL", "FR"}},
	{"serialNumber", asn1.ObjectIdentifier{2, 5, 4, 5}, 19, []string{"12345", "", " ", "A-1", strings.Repeat("9", 65), "é"}},
	{"businessCategory", asn1.ObjectIdentifier{2, 5, 4, 15}, 12, []string{"Private Organization", "Government Entity", "Business Entity", "Non-Commercial Entity", "private organization", "", "Other"}},
	{"jurisdictionCountry", asn1.ObjectIdentifier{1, 3, 6, 1, 4, 1, 311, 60, 2, 1, 3}, 19, []string{"US", "DE", "XX", "us", "USA", ""}},
	{"jurisdictionState", asn1.ObjectIdentifier{1, 3, 6, 1, 4, 1, 311, 60, 2, 1, 2}, 12, []string{"Delaware", "", "DE"}},
	{"jurisdictionLocality", asn1.ObjectIdentifier{1, 3, 6, 1, 4, 1, 311, 60, 2, 1, 1}, 12, []string{"Dover", ""}},
	{"organizationName", asn1.ObjectIdentifier{2, 5, 4, 10}, 12, []string{"Example Inc.", "", " ", strings.Repeat("o", 65), "Exämple"}},
	{"organizationalUnitName", asn1.ObjectIdentifier{2, 5, 4, 11}, 12, []string{"IT", "", strings.Repeat("u", 65), "."}},
	{"commonName", asn1.ObjectIdentifier{2, 5, 4, 3}, 12, []string{"example.com", "a@example.com", "Jane Doe", "", "*.example.com", "1.2.3.4", "EXAMPLE.COM", "Pseudonym: x", strings.Repeat("c", 65), "xn--caf-dma.example.com", "a.onion"}},
	{"givenName", asn1.ObjectIdentifier{2, 5, 4, 42}, 12, []string{"Jane", "", strings.Repeat("g", 20)}},
	{"surname", asn1.ObjectIdentifier{2, 5, 4, 4}, 12, []string{"Doe", "", strings.Repeat("s", 45)}},
	{"pseudonym", asn1.ObjectIdentifier{2, 5, 4, 65}, 12, []string{"jd", ""}},
	{"localityName", asn1.ObjectIdentifier{2, 5, 4, 7}, 12, []string{"Berlin", "", strings.Repeat("l", 130)}},
	{"stateOrProvinceName", asn1.ObjectIdentifier{2, 5, 4, 8}, 12, []string{"Berlin", "", strings.Repeat("p", 130)}},
	{"streetAddress", asn1.ObjectIdentifier{2, 5, 4, 9}, 12, []string{"1 Main St", "", strings.Repeat("t", 130)}},
	{"postalCode", asn1.ObjectIdentifier{2, 5, 4, 17}, 12, []string{"10115", "", strings.Repeat("1", 41)}},
	{"emailAddress", asn1.ObjectIdentifier{1, 2, 840, 113549, 1, 9, 1}, 22, []string{"a@example.com", "A@EXAMPLE.COM", "", "@", "a@", "@b", "a b@example.com", "a@b@c", strings.Repeat("e", 250) + "@example.com", "other@example.org"}},
	{"domainComponent", asn1.ObjectIdentifier{0, 9, 2342, 19200300, 100, 1, 25}, 22, []string{"example", "com", "", "a.b", "-"}},
	{"title", asn1.ObjectIdentifier{2, 5, 4, 12}, 12, []string{"Dr", ""}},
	{"name", asn1.ObjectIdentifier{2, 5, 4, 41}, 12, []string{"Jane Doe", ""}},
	{"initials", asn1.ObjectIdentifier{2, 5, 4, 43}, 12, []string{"JD", ""}},
	{"generationQualifier", asn1.ObjectIdentifier{2, 5, 4, 44}, 12, []string{"III", ""}},
	{"dnQualifier", asn1.ObjectIdentifier{2, 5, 4, 46}, 19, []string{"q", ""}},
	{"userId", asn1.ObjectIdentifier{0, 9, 2342, 19200300, 100, 1, 1}, 12, []string{"jdoe", ""}},
	{"unknownAttribute", asn1.ObjectIdentifier{1, 3, 6, 1, 4, 1, 55555, 1}, 12, []string{"x", ""}},
}

type subjAttr struct {
	t   *attrType
	val string
	tag int
}

func encodeAttrValue(tag int, val string) asn1.RawValue {
	b := []byte(val)
	switch tag {
	case 30: // BMPString
		u := utf16.Encode([]rune(val))
		b = make([]byte, 0, 2*len(u))
		for _, x := range u {
			b = append(b, byte(x>>8), byte(x))
		}
	case 28: // UniversalString
		b = nil
		for _, r := range val {
			b = append(b, byte(r>>24), byte(r>>16), byte(r>>8), byte(r))
		}
	}
	return asn1.RawValue{Class: 0, Tag: tag, Bytes: b}
}

// rawSubject encodes the attributes as a Name; multi says which attributes join the previous RDN (multi-valued RDN).
func rawSubject(attrs []subjAttr, multi map[int]bool) []byte {
	type atv struct {
		Type  asn1.ObjectIdentifier
		Value asn1.RawValue
	}
	var rdns []asn1.RawValue
	var cur []atv
	flush := func() {
		if len(cur) == 0 {
			return
		}
		var content []byte
		for _, a := range cur {
			b, err := asn1.Marshal(a)
			if err != nil {
				continue
			}
			content = append(content, b...)
		}
		rdns = append(rdns, asn1.RawValue{Class: 0, Tag: 17, IsCompound: true, Bytes: content})
		cur = nil
	}
	for i, a := range attrs {
		if !multi[i] {
			flush()
		}
		cur = append(cur, atv{a.t.oid, encodeAttrValue(a.tag, a.val)})
	}
	flush()
	b, err := asn1.Marshal(rdns)
	if err != nil {
		return nil
	}
	return b
}

type scopeProfile struct {
	name  string
	apply func(t *stdx509.Certificate)
	base  []subjAttr
}

func attrByName(n string) *attrType {
	for i := range attrTypes {
		if attrTypes[i].name == n {
			return &attrTypes[i]
		}
	}
	panic(n)
}

func sa(n, v string) subjAttr { t := attrByName(n); return subjAttr{t, v, t.tag} }

func scopeProfiles() []scopeProfile {
	var ps []scopeProfile
	tls := func(name string, pol asn1.ObjectIdentifier, base ...subjAttr) {
		ps = append(ps, scopeProfile{name, func(t *stdx509.Certificate) {
			t.PolicyIdentifiers = []asn1.ObjectIdentifier{pol}
		}, base})
	}
	tls("tls-dv", asn1.ObjectIdentifier{2, 23, 140, 1, 2, 1}, sa("commonName", "example.com"))
	tls("tls-ov", asn1.ObjectIdentifier{2, 23, 140, 1, 2, 2}, sa("countryName", "US"), sa("organizationName", "Example Inc."), sa("commonName", "example.com"))
	tls("tls-iv", asn1.ObjectIdentifier{2, 23, 140, 1, 2, 3}, sa("countryName", "US"), sa("givenName", "Jane"), sa("surname", "Doe"))
	tls("tls-ev", asn1.ObjectIdentifier{2, 23, 140, 1, 1}, sa("countryName", "US"), sa("organizationName", "Example Inc."), sa("businessCategory", "Private Organization"),
		sa("jurisdictionCountry", "US"), sa("serialNumber", "12345"), sa("commonName", "example.com"))
	for gen := 1; gen <= 4; gen++ { // mailbox, organization, sponsor, individual validated
		for fl := 1; fl <= 3; fl++ { // legacy, multipurpose, strict
			gen, fl := gen, fl
			base := []subjAttr{sa("commonName", "a@example.com")}
			if gen == 2 || gen == 3 {
				base = []subjAttr{sa("countryName", "DE"), sa("organizationName", "Example GmbH"), sa("commonName", "Example GmbH")}
			}
			if gen == 3 || gen == 4 {
				base = append(base, sa("givenName", "Jane"), sa("surname", "Doe"))
			}
			ps = append(ps, scopeProfile{fmt.Sprintf("smime-%d-%d", gen, fl), func(t *stdx509.Certificate) {
				t.PolicyIdentifiers = []asn1.ObjectIdentifier{{2, 23, 140, 1, 5, gen, fl}}
				t.ExtKeyUsage = []stdx509.ExtKeyUsage{stdx509.ExtKeyUsageEmailProtection}
				t.DNSNames = nil
				t.EmailAddresses = []string{"a@example.com"}
			}, base})
		}
	}
	ps = append(ps, scopeProfile{"code-signing", func(t *stdx509.Certificate) {
		t.PolicyIdentifiers = []asn1.ObjectIdentifier{{2, 23, 140, 1, 4, 1}}
		t.ExtKeyUsage = []stdx509.ExtKeyUsage{stdx509.ExtKeyUsageCodeSigning}
		t.DNSNames = nil
	}, []subjAttr{sa("countryName", "US"), sa("organizationName", "Example Inc."), sa("commonName", "Example Inc.")}})
	ps = append(ps, scopeProfile{"sub-ca", func(t *stdx509.Certificate) {
		t.IsCA = true
		t.KeyUsage = stdx509.KeyUsageCertSign | stdx509.KeyUsageCRLSign
		t.ExtKeyUsage = nil
		t.DNSNames = nil
		t.PolicyIdentifiers = []asn1.ObjectIdentifier{{2, 5, 29, 32, 0}}
	}, []subjAttr{sa("countryName", "US"), sa("organizationName", "Example Inc."), sa("commonName", "Example CA")}})
	ps = append(ps, scopeProfile{"no-policy-email-eku", func(t *stdx509.Certificate) {
		t.ExtKeyUsage = []stdx509.ExtKeyUsage{stdx509.ExtKeyUsageEmailProtection, stdx509.ExtKeyUsageClientAuth}
		t.DNSNames = nil
		t.EmailAddresses = []string{"a@example.com"}
	}, []subjAttr{sa("commonName", "a@example.com")}})
	return ps
}

type subjectCase struct {
	DER   []byte
	Why   string
	Attrs []string
}

// structuredSubjects returns the generated certificates.  pairsFull: attribute types whose every ordered value pair is
// tried under every profile (the rest get one profile per pair, rotating); nRandom further random subjects.
func structuredSubjects(rng *Rng, thorough bool, nRandom int) []subjectCase {
	profiles := scopeProfiles()
	var out []subjectCase
	build := func(p scopeProfile, attrs []subjAttr, multi map[int]bool, why string) {
		t := leafTemplate()
		t.NotBefore = time.Date(2024, 10, 1, 0, 0, 0, 0, time.UTC)
		t.NotAfter = time.Date(2025, 3, 1, 0, 0, 0, 0, time.UTC)
		p.apply(t)
		t.RawSubject = rawSubject(attrs, multi)
		if t.RawSubject == nil {
			return
		}
		der, _, err := issue(t, nil)
		if err != nil {
			return
		}
		var desc []string
		for _, a := range attrs {
			desc = append(desc, fmt.Sprintf("%s[%d]=%q", a.t.name, a.tag, a.val))
		}
		out = append(out, subjectCase{der, why + " " + p.name, desc})
	}
	rich := map[string]bool{"organizationIdentifier": true}
	if thorough {
		for i := range attrTypes {
			rich[attrTypes[i].name] = true
		}
	}
	pairIdx := 0
	for ti := range attrTypes {
		t := &attrTypes[ti]
		pool := t.pool
		if !thorough && !rich[t.name] && len(pool) > 6 {
			pool = pool[:6]
		}
		for i, v1 := range pool {
			for j, v2 := range pool {
				if i == j {
					continue
				}
				pairIdx++
				var ps []scopeProfile
				if rich[t.name] {
					ps = profiles
				} else {
					ps = []scopeProfile{profiles[pairIdx%len(profiles)]}
				}
				for _, p := range ps {
					// the base subject without attributes of this type, then the pair (after or before, alternating)
					var base []subjAttr
					for _, b := range p.base {
						if b.t != t {
							base = append(base, b)
						}
					}
					pair := []subjAttr{{t, v1, t.tag}, {t, v2, t.tag}}
					var attrs []subjAttr
					if pairIdx%2 == 0 {
						attrs = append(append(attrs, base...), pair...)
					} else {
						attrs = append(append(attrs, pair...), base...)
					}
					build(p, attrs, nil, "repeated "+t.name)
				}
			}
		}
	}
	tags := []int{12, 19, 22, 20, 30, 28}
	for n := 0; n < nRandom; n++ {
		p := profiles[rng.Intn(len(profiles))]
		var attrs []subjAttr
		if rng.Intn(3) != 0 {
			attrs = append(attrs, p.base...)
		}
		k := 1 + rng.Intn(6)
		for len(attrs) < len(p.base)+k {
			var t *attrType
			if len(attrs) > 0 && rng.Intn(3) == 0 {
				t = attrs[rng.Intn(len(attrs))].t // repeat a type already present
			} else {
				t = &attrTypes[rng.Intn(len(attrTypes))]
			}
			val := ""
			if rng.Intn(4) == 0 {
				val = genericValues[rng.Intn(len(genericValues))]
			} else {
				val = t.pool[rng.Intn(len(t.pool))]
			}
			tag := t.tag
			if rng.Intn(5) == 0 {
				tag = tags[rng.Intn(len(tags))]
			}
			attrs = append(attrs, subjAttr{t, val, tag})
		}
		rng.Shuffle(len(attrs), func(i, j int) { attrs[i], attrs[j] = attrs[j], attrs[i] })
		multi := map[int]bool{}
		if rng.Intn(6) == 0 && len(attrs) > 1 {
			multi[1+rng.Intn(len(attrs)-1)] = true
		}
		build(p, attrs, multi, "random subject")
	}
	return out
}
