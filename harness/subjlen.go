package main

import (
	"fmt"
	"strings"

	"github.com/zmap/zcrypto/x509"
	"github.com/zmap/zlint/v3/lint"
)

// stream "subjlen" (Kernels.SubjLen): the thirteen "subject attribute too long" lints by direct call, with the attribute
// values the parser produced.  Directed inputs sit at limit-1, limit, limit+1 characters, in one-, two-, three- and
// four-octet characters and with octets that are not UTF-8.

type subjLenLint struct {
	name, attr string
	limit      int
	vals       func(c *x509.Certificate) []string
}

func one(s string) []string {
	if s == "" {
		return nil
	}
	return []string{s}
}

var subjLenLints = []subjLenLint{
	{"e_subject_common_name_max_length", "commonName", 64, func(c *x509.Certificate) []string { return one(c.Subject.CommonName) }},
	{"e_subject_dn_serial_number_max_length", "serialNumber", 64, func(c *x509.Certificate) []string { return one(c.Subject.SerialNumber) }},
	{"e_subject_email_max_length", "emailAddress", 255, func(c *x509.Certificate) []string { return c.Subject.EmailAddress }},
	{"e_subject_given_name_max_length", "givenName", 32768, func(c *x509.Certificate) []string { return c.Subject.GivenName }},
	{"w_subject_given_name_recommended_max_length", "givenName", 64, func(c *x509.Certificate) []string { return c.Subject.GivenName }},
	{"e_subject_locality_name_max_length", "localityName", 128, func(c *x509.Certificate) []string { return c.Subject.Locality }},
	{"e_subject_organization_name_max_length", "organizationName", 64, func(c *x509.Certificate) []string { return c.Subject.Organization }},
	{"e_subject_organizational_unit_name_max_length", "organizationalUnitName", 64, func(c *x509.Certificate) []string { return c.Subject.OrganizationalUnit }},
	{"e_subject_postal_code_max_length", "postalCode", 16, func(c *x509.Certificate) []string { return c.Subject.PostalCode }},
	{"e_subject_state_name_max_length", "stateOrProvinceName", 128, func(c *x509.Certificate) []string { return c.Subject.Province }},
	{"e_subject_street_address_max_length", "streetAddress", 128, func(c *x509.Certificate) []string { return c.Subject.StreetAddress }},
	{"e_subject_surname_max_length", "surname", 32768, func(c *x509.Certificate) []string { return c.Subject.Surname }},
	{"w_subject_surname_recommended_max_length", "surname", 64, func(c *x509.Certificate) []string { return c.Subject.Surname }},
}

func subjLenCase(c *x509.Certificate) (term, tag string, ok bool) {
	g := lint.GlobalRegistry().CertificateLints()
	var vals, sts []string
	interesting := false
	for _, sl := range subjLenLints {
		l := g.ByName(sl.name)
		if l == nil {
			return "", "", false
		}
		st := -1
		func() {
			defer func() { recover() }()
			inst := l.Lint()
			if !inst.CheckApplies(c) {
				st = 1
				return
			}
			st = int(inst.Execute(c).Status)
		}()
		if st != 1 {
			interesting = true
		}
		sts = append(sts, fmt.Sprint(st))
		var vs []string
		for _, v := range sl.vals(c) {
			vs = append(vs, cqBytes(v))
		}
		vals = append(vals, cqTyped(vs, "bytes"))
	}
	if !interesting {
		return "", "", false
	}
	return fmt.Sprintf("(%s, [%s])", cqList(vals), strings.Join(sts, "; ")), strings.Join(sts, "/"), true
}

// subjLenCerts: for each lint, values of limit-1 / limit / limit+1 characters built from characters of every width, alone
// and next to a short value (both orders)
func subjLenCerts() [][]byte {
	var out [][]byte
	units := []string{"a", "\xc3\xa9", "\xe2\x82\xac", "\xf0\x9f\x98\x80", "\xff"}
	for li, sl := range subjLenLints {
		if sl.name[0] == 'w' {
			continue // same attribute as the error-level lint before it: the values below cross both limits
		}
		lims := []int{sl.limit}
		if sl.limit == 32768 {
			lims = append(lims, 64)
		}
		for _, lim := range lims {
			for ui, u := range units {
				if lim == 32768 && (ui > 0 && tier() != "thorough" || ui > 1) {
					continue // values of 32768 characters are 32-130 kB each; the wider characters are covered at the small limits
				}
				for _, n := range []int{lim - 1, lim, lim + 1} {
					if lim == 32768 && n == lim-1 {
						continue
					}
					val := strings.Repeat(u, n)
					for shape := 0; shape < 3; shape++ {
						at := attrByName(sl.attr)
						attrs := []subjAttr{{attrByName("countryName"), "US", 19}}
						switch shape {
						case 0:
							attrs = append(attrs, subjAttr{at, val, 12})
						case 1:
							attrs = append(attrs, subjAttr{at, "short", 12}, subjAttr{at, val, 12})
						case 2:
							attrs = append(attrs, subjAttr{at, val, 12}, subjAttr{at, "short", 12})
						}
						if shape > 0 && (lim == 32768 || (li+ui)%2 == 1 && tier() != "thorough") {
							continue
						}
						t := leafTemplate()
						t.RawSubject = rawSubject(attrs, nil)
						if t.RawSubject == nil {
							continue
						}
						if der, _, err := issue(t, nil); err == nil {
							out = append(out, der)
						}
					}
				}
			}
		}
	}
	// values padded with blanks on either side (the length is the length of the value as it stands)
	for _, attr := range []string{"givenName", "surname", "organizationName", "commonName"} {
		at := attrByName(attr)
		for _, pad := range []int{70, 32800} {
			if pad > 100 && attr != "givenName" && attr != "surname" {
				continue
			}
			for _, val := range []string{"Ann" + strings.Repeat(" ", pad), strings.Repeat(" ", pad) + "Ann", strings.Repeat(" ", pad/2) + "Ann" + strings.Repeat("\t", pad/2)} {
				t := leafTemplate()
				t.RawSubject = rawSubject([]subjAttr{{attrByName("countryName"), "US", 19}, {at, val, 12}}, nil)
				if t.RawSubject == nil {
					continue
				}
				if der, _, err := issue(t, nil); err == nil {
					out = append(out, der)
				}
			}
		}
	}
	return out
}
