package main

import (
	"fmt"
	"net/url"

	"github.com/zmap/zcrypto/x509"
	"github.com/zmap/zlint/v3/lint"
	"github.com/zmap/zlint/v3/util"
)

// torCase: one correspondence case for Kernels/Tor.v - the view of e_ext_tor_service_descriptor_hash_invalid (extension
// present, EV, names, descriptors with net/url's answers about each Onion URI) and what the body returns (direct
// Execute under recover; -1 = panic, -2 = nil result).
func torCase(c *x509.Certificate) (string, string, bool) {
	hasExt := util.GetExtFromCert(c, util.BRTorServiceDescriptor) != nil
	if !hasExt && len(c.TorServiceDescriptors) == 0 {
		onion := false
		for _, n := range append(append([]string{}, c.DNSNames...), c.Subject.CommonName) {
			if len(n) >= 6 && n[len(n)-6:] == ".onion" {
				onion = true
			}
		}
		if !onion {
			return "", "", false
		}
	}
	l := lint.GlobalRegistry().CertificateLints().ByName("e_ext_tor_service_descriptor_hash_invalid")
	if l == nil {
		return "", "", false
	}
	st := 0
	func() {
		defer func() {
			if recover() != nil {
				st = -1
			}
		}()
		r := l.Lint().Execute(c)
		if r == nil {
			st = -2
		} else {
			st = int(r.Status)
		}
	}()
	var names []string
	for _, n := range append(append([]string{}, c.DNSNames...), c.Subject.CommonName) {
		names = append(names, cqBytes(n))
	}
	var ds []string
	for _, d := range c.TorServiceDescriptors {
		ok, host, scheme, hostname := false, "", "", ""
		if u, err := url.Parse(d.Onion); err == nil {
			ok, host, scheme, hostname = true, u.Host, u.Scheme, u.Hostname()
		}
		ds = append(ds, fmt.Sprintf("(mkDesc %s %s %s %s %s %s)", cqBool(ok), cqBytes(host), cqBytes(scheme), cqBytes(hostname), cqBytes(d.AlgorithmName), cqZ(int64(d.HashBits))))
	}
	return fmt.Sprintf("(mkTor %s %s %s %s, %s)", cqBool(hasExt), cqBool(util.IsEV(c.PolicyIdentifiers)), cqTyped(names, "bytes"), cqTyped(ds, "desc"), cqZ(int64(st))), fmt.Sprint(st), true
}
