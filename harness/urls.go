package main

import (
	stdx509 "crypto/x509"
	"encoding/asn1"
	"fmt"
	"net/url"

	"github.com/zmap/zcrypto/x509"
	"github.com/zmap/zlint/v3/lint"
	"github.com/zmap/zlint/v3/util"
)

var urlLintNames = []string{"w_sub_ca_aia_does_not_contain_issuing_ca_url", "w_sub_cert_aia_does_not_contain_issuing_ca_url", "e_sub_cert_aia_does_not_contain_ocsp_url",
	"e_sub_cert_crl_distribution_points_does_not_contain_url", "e_sub_ca_crl_distribution_points_does_not_contain_url", "e_aia_ca_issuers_must_have_http_only", "e_aia_ocsp_must_have_http_only",
	"e_aia_unique_access_locations", "e_crl_distrib_points_not_http", "e_cs_crl_distribution_points", "e_smime_legacy_aia_shall_have_one_http", "e_smime_strict_aia_shall_have_http_only",
	"e_subscribers_crl_distribution_points_are_http", "w_distribution_point_missing_ldap_or_uri", "w_ext_aia_access_location_missing"}

// urlCase: one correspondence case for Kernels/Urls.v - the three URL lists with net/url's answers, the flags the
// bodies read, and what the fifteen bodies return (direct Execute under recover; -1 = panic, -2 = nil, 0 = lint missing).
func urlCase(c *x509.Certificate) (string, string, bool) {
	if len(c.OCSPServer)+len(c.IssuingCertificateURL)+len(c.CRLDistributionPoints) == 0 {
		return "", "", false
	}
	for _, l := range [][]string{c.OCSPServer, c.IssuingCertificateURL, c.CRLDistributionPoints} {
		for _, u := range l {
			if !isASCII(u) {
				return "", "", false // strings.EqualFold beyond ASCII is not modelled
			}
		}
	}
	conv := func(l []string) string {
		var items []string
		for _, u := range l {
			ok, scheme := false, ""
			if p, err := url.Parse(u); err == nil {
				ok, scheme = true, p.Scheme
			}
			items = append(items, fmt.Sprintf("(mkUrl %s %s %s)", cqBytes(u), cqBool(ok), cqBytes(scheme)))
		}
		return cqTyped(items, "purl")
	}
	ext := util.GetExtFromCert(c, util.CrlDistOID)
	var sts []string
	tag := ""
	for _, n := range urlLintNames {
		st := 0
		if l := lint.GlobalRegistry().CertificateLints().ByName(n); l != nil {
			func() {
				defer func() {
					if recover() != nil {
						st = -1
					}
				}()
				if r := l.Lint().Execute(c); r == nil {
					st = -2
				} else {
					st = int(r.Status)
				}
			}()
		}
		sts = append(sts, cqZ(int64(st)))
		tag += fmt.Sprintf("%d/", st)
	}
	view := fmt.Sprintf("(mkUrlView %s %s %s %s %s %s %s)", conv(c.OCSPServer), conv(c.IssuingCertificateURL), conv(c.CRLDistributionPoints), cqBool(ext != nil), cqBool(ext != nil && ext.Critical),
		cqBool(util.IsStrictSMIMECertificate(c) || util.IsMultipurposeSMIMECertificate(c)), cqBool(util.IsLegacySMIMECertificate(c)))
	return fmt.Sprintf("(%s, %s)", view, cqList(sts)), tag[:len(tag)-1], true
}

// urlCerts: certificates whose three URL lists are drawn from a pool of spellings (schemes in both cases, with and
// without the two slashes, opaque forms, other schemes, unparseable text, the empty string, repeated entries that differ
// in case only), with and without the S/MIME generation policies, the extension critical or not.
func urlCerts(rng *Rng) [][]byte {
	pool := []string{"http://a.example/x", "HTTP://A.EXAMPLE/X", "http://a.example/X", "https://a.example/x", "ldap://d.example/cn=x", "LDAP://D.EXAMPLE/cn=x", "http:opaque.example", "http:/one-slash",
		"ftp://f.example/x", "http://[::1", "%zz", "", "http://b.example/y", "Http://b.example/y", "ldaps://d.example/", "httpx://a.example/", " http://a.example/", "//a.example/x", "http://a.example/%zz"}
	smime := [][]int{nil, {2, 23, 140, 1, 5, 1, 1}, {2, 23, 140, 1, 5, 1, 2}, {2, 23, 140, 1, 5, 1, 3}, {2, 23, 140, 1, 5, 3, 3}}
	var out [][]byte
	n := 260
	if tier() == "thorough" {
		n = 2000
	}
	for i := 0; i < n; i++ {
		t := leafTemplate()
		draw := func() []string {
			var l []string
			for k := rng.Intn(4); k > 0; k-- {
				l = append(l, pool[rng.Intn(len(pool))])
			}
			return l
		}
		if i < len(pool) { // every spelling alone in each list
			t.OCSPServer, t.IssuingCertificateURL, t.CRLDistributionPoints = []string{pool[i]}, []string{pool[i]}, []string{pool[i]}
		} else {
			t.OCSPServer, t.IssuingCertificateURL, t.CRLDistributionPoints = draw(), draw(), draw()
		}
		if p := smime[i%len(smime)]; p != nil {
			t.PolicyIdentifiers = append(t.PolicyIdentifiers, asn1.ObjectIdentifier(p))
			t.ExtKeyUsage = []stdx509.ExtKeyUsage{stdx509.ExtKeyUsageEmailProtection}
			t.EmailAddresses = []string{"a@example.com"}
		}
		if i%7 == 3 {
			t.IsCA, t.BasicConstraintsValid, t.KeyUsage = true, true, stdx509.KeyUsageCertSign
		}
		if der, _, err := issue(t, nil); err == nil {
			out = append(out, der)
		}
	}
	return out
}
