package main

import (
	"encoding/json"
	"fmt"
	"math/big"
	"os"
	"sort"
	"strconv"
	"strings"
)

// ---------- deterministic PRNG (splitmix64), every random choice derives from VERIF_SEED ----------

type Rng struct{ s uint64 }

func NewRng(seed uint64, stream string) *Rng {
	r := &Rng{s: seed*0x9E3779B97F4A7C15 + 0x1234567}
	for _, c := range []byte(stream) {
		r.s = r.s*1099511628211 + uint64(c)
	}
	r.Next()
	return r
}

func (r *Rng) Next() uint64 {
	r.s += 0x9E3779B97F4A7C15
	z := r.s
	z = (z ^ (z >> 30)) * 0xBF58476D1CE4E5B9
	z = (z ^ (z >> 27)) * 0x94D049BB133111EB
	return z ^ (z >> 31)
}

func (r *Rng) Intn(n int) int {
	if n <= 0 {
		return 0
	}
	return int(r.Next() % uint64(n))
}
func (r *Rng) Bool() bool        { return r.Next()&1 == 1 }
func (r *Rng) Chance(p int) bool { return r.Intn(100) < p }
func (r *Rng) Bytes(n int) []byte {
	b := make([]byte, n)
	for i := range b {
		b[i] = byte(r.Next())
	}
	return b
}
func pick[T any](r *Rng, xs []T) T { return xs[r.Intn(len(xs))] }

func (r *Rng) Shuffle(n int, swap func(i, j int)) {
	for i := n - 1; i > 0; i-- {
		j := r.Intn(i + 1)
		swap(i, j)
	}
}

func seedFromEnv() uint64 {
	s := os.Getenv("VERIF_SEED")
	if s == "" {
		return 1
	}
	v, err := strconv.ParseUint(s, 10, 64)
	if err != nil {
		v2, _ := strconv.ParseInt(s, 10, 64)
		return uint64(v2)
	}
	return v
}

func tier() string {
	if t := os.Getenv("VERIF_TIER"); t != "" {
		return t
	}
	return "quick"
}

func repoDir() string {
	if d := os.Getenv("VERIF_REPO"); d != "" {
		return d
	}
	return "/repo"
}

// ---------- Coq term rendering ----------

func cqBytes(s string) string {
	b := []byte(s)
	safe := len(b) > 0
	for _, c := range b {
		if c < 32 || c >= 127 || c == '"' {
			safe = false
			break
		}
	}
	if safe && len(b) <= 4000 {
		return `(s2b "` + s + `")`
	}
	if safe {
		var chunks []string
		for i := 0; i < len(s); i += 4000 {
			j := i + 4000
			if j > len(s) {
				j = len(s)
			}
			chunks = append(chunks, `s2b "`+s[i:j]+`"`)
		}
		return "(" + strings.Join(chunks, " ++ ") + ")"
	}
	if len(b) == 0 {
		return "(@nil N)"
	}
	// long values in chunks: a list literal of tens of thousands of elements overflows the assistant's parser stack
	const chunk = 400
	var chunks []string
	for i := 0; i < len(b); i += chunk {
		j := i + chunk
		if j > len(b) {
			j = len(b)
		}
		parts := make([]string, j-i)
		for k, c := range b[i:j] {
			parts[k] = strconv.Itoa(int(c))
		}
		chunks = append(chunks, "["+strings.Join(parts, ";")+"]%N")
	}
	if len(chunks) == 1 {
		return chunks[0]
	}
	return "(" + strings.Join(chunks, " ++ ") + ")"
}

func cqList(items []string) string { return "[" + strings.Join(items, "; ") + "]" }

// cqTyped is cqList with the element type spelled out when the list is empty (a shard whose lists are all empty has
// nothing to infer the type from)
func cqTyped(items []string, ty string) string {
	if len(items) == 0 {
		return "(@nil " + ty + ")"
	}
	return cqList(items)
}

func cqBytesList(ss []string) string {
	items := make([]string, len(ss))
	for i, s := range ss {
		items[i] = cqBytes(s)
	}
	return cqList(items)
}

func cqBool(b bool) string {
	if b {
		return "true"
	}
	return "false"
}

func cqZ(n int64) string { return fmt.Sprintf("(%d)%%Z", n) }

func cqZs(s string) string {
	// Coq's decimal numeral parser is quadratic; large values are emitted in hexadecimal
	if len(s) > 18 {
		if n, ok := new(big.Int).SetString(s, 10); ok {
			if n.Sign() < 0 {
				return fmt.Sprintf("(-0x%x)%%Z", new(big.Int).Neg(n))
			}
			return fmt.Sprintf("(0x%x)%%Z", n)
		}
	}
	return "(" + s + ")%Z"
}

func cqN(n uint64) string { return fmt.Sprintf("%d%%N", n) }

// ---------- output ----------

type Case struct {
	Coq  string      `json:"coq"`            // Coq term for the model-side check
	Desc interface{} `json:"desc,omitempty"` // human-readable description (replay material)
	Tag  string      `json:"tag,omitempty"`  // abstract-class tag for distinct counting
}

type Violation struct {
	Key      string      `json:"key"`
	What     string      `json:"what"`
	Input    interface{} `json:"input,omitempty"`
	Expected interface{} `json:"expected,omitempty"`
	Observed interface{} `json:"observed,omitempty"`
}

type Output struct {
	Cases      map[string][]Case      `json:"cases,omitempty"` // stream name -> cases
	Violations []Violation            `json:"violations,omitempty"`
	Stats      map[string]interface{} `json:"stats,omitempty"`
	Data       map[string]interface{} `json:"data,omitempty"`
	Samples    []interface{}          `json:"samples,omitempty"`
}

// activeOutput: the output under construction, so that the stall detector can hand over what was found before a lint
// stopped returning
var activeOutput *Output

func NewOutput() *Output {
	o := &Output{Cases: map[string][]Case{}, Stats: map[string]interface{}{}, Data: map[string]interface{}{}}
	activeOutput = o
	return o
}

func (o *Output) Add(stream string, c Case) { o.Cases[stream] = append(o.Cases[stream], c) }

func (o *Output) Violate(key, what string, input, expected, observed interface{}) {
	if len(o.Violations) < 200 {
		o.Violations = append(o.Violations, Violation{key, what, input, expected, observed})
	}
}

func (o *Output) Count(k string, n int) {
	cur, _ := o.Stats[k].(int)
	o.Stats[k] = cur + n
}

func (o *Output) Sample(s interface{}) {
	if len(o.Samples) < 6 {
		o.Samples = append(o.Samples, s)
	}
}

func (o *Output) Emit() error {
	enc := json.NewEncoder(os.Stdout)
	return enc.Encode(o)
}

func sortedKeys[V any](m map[string]V) []string {
	ks := make([]string, 0, len(m))
	for k := range m {
		ks = append(ks, k)
	}
	sort.Strings(ks)
	return ks
}

func hexs(b []byte) string { return fmt.Sprintf("%x", b) }
