package main

import (
	"fmt"
	"time"

	"github.com/zmap/zcrypto/x509"
	"github.com/zmap/zlint/v3/lint"
)

var validityLintNames = []string{"e_tls_server_cert_valid_time_longer_than_398_days", "w_tls_server_cert_valid_time_longer_than_397_days", "e_sub_cert_valid_time_longer_than_39_months",
	"e_sub_cert_valid_time_longer_than_825_days", "e_ev_valid_time_too_long", "e_onion_subject_validity_time_too_large"}

// validityCases: (notBefore, notAfter) pairs for Kernels/Validity.v - notBefore on month ends, leap days, year ends and
// ordinary days at several times of day; notAfter one second before, at and one second after each lint's limit (the
// limits computed here with the library, i.e. the comparison is of the model's calendar with Go's), and a few far
// values.  The six bodies read nothing but the two instants, so they are called on a bare certificate value.
func validityCases(add func(term, tag string, desc map[string]interface{})) {
	var starts []time.Time
	for _, y := range []int{2015, 2016, 2019, 2020, 2023, 2024, 2099, 2100} {
		for _, md := range [][2]int{{1, 31}, {2, 28}, {2, 29}, {3, 31}, {5, 31}, {8, 31}, {10, 31}, {11, 30}, {12, 31}, {1, 1}, {6, 15}} {
			for _, hms := range [][3]int{{0, 0, 0}, {23, 59, 59}, {12, 30, 1}} {
				if (y+md[0]+hms[0])%3 != 0 && tier() != "thorough" {
					continue
				}
				starts = append(starts, time.Date(y, time.Month(md[0]), md[1], hms[0], hms[1], hms[2], 0, time.UTC))
			}
		}
	}
	starts = append(starts, time.Date(1970, 1, 1, 0, 0, 0, 0, time.UTC), time.Date(1969, 12, 31, 23, 59, 59, 0, time.UTC), time.Date(1950, 3, 1, 0, 0, 0, 0, time.UTC), time.Date(2400, 2, 29, 0, 0, 0, 0, time.UTC))
	seen := map[string]bool{}
	for _, nb := range starts {
		limits := []time.Time{nb.Add(398*86400*time.Second - time.Second), nb.Add(397*86400*time.Second - time.Second), nb.AddDate(0, 39, 0), nb.AddDate(0, 0, 825), nb.AddDate(0, 27, 0), nb.AddDate(0, 15, 0),
			nb, nb.AddDate(10, 0, 0), nb.Add(-time.Hour)}
		for _, lim := range limits {
			for _, d := range []time.Duration{-time.Second, 0, time.Second} {
				na := lim.Add(d)
				c := &x509.Certificate{NotBefore: nb, NotAfter: na}
				var sts []string
				tag := ""
				for _, n := range validityLintNames {
					st := 0
					if l := lint.GlobalRegistry().CertificateLints().ByName(n); l != nil {
						func() {
							defer func() {
								if recover() != nil {
									st = -1
								}
							}()
							if r := l.Lint().Execute(c); r == nil {
								st = -2
							} else {
								st = int(r.Status)
							}
						}()
					}
					sts = append(sts, cqZ(int64(st)))
					tag += fmt.Sprintf("%d/", st)
				}
				term := fmt.Sprintf("(%s, %s, %s)", cqZ(nb.Unix()), cqZ(na.Unix()), cqList(sts))
				if !seen[term] {
					seen[term] = true
					add(term, tag[:len(tag)-1], map[string]interface{}{"notBefore": nb.Format(time.RFC3339), "notAfter": na.Format(time.RFC3339)})
				}
			}
		}
	}
}
