package main

import (
	"bytes"
	"os"
	crand "crypto/rand"
	"math/big"

	"golang.org/x/crypto/ocsp"
	stdx509 "crypto/x509"
	"crypto/x509/pkix"
	"encoding/asn1"
	"fmt"
	"net"
	"sort"
	"strings"
	"time"

	"github.com/zmap/zlint/v3/util"
)

// The certificate zoo: one shared population of generated, parser-accepted certificates that stretches every
// dimension the lints look at - key usages x extended key usages, signature algorithms, subjects with repeated and
// oddly typed attributes, names of every kind (related names, names under top-level domains of every status, several
// IP addresses), extensions that are present but empty, validity encodings, own-key signatures.  The monitors of the
// input-quantified properties (C01 C02 C05 C06 C07 C09 C17 C20) all run over it, so that a rule body that goes wrong
// on some unusual shape is met by every property it can break.

type ZooCert struct {
	CorpusCert
	Class string
}

var relatedNameGroups = [][]genName{
	{{2, []byte("WWW.Example.com")}, {2, []byte("mail.example.com")}, {2, []byte("www.example.com")}},
	{{2, []byte("example.com")}, {2, []byte("EXAMPLE.COM")}},
	{{2, []byte("example.com")}, {2, []byte("example.com")}, {2, []byte("www.example.com")}},
	{{2, []byte("example.com")}, {2, []byte("example.com.")}},
	{{2, []byte("*.example.com")}, {2, []byte("www.example.com")}, {2, []byte("*.EXAMPLE.com")}},
	{{2, []byte("a.example.com")}, {2, []byte("A.example.com")}, {2, []byte("a.Example.com")}},
	{{7, net.ParseIP("2606:4700:4700::1111").To16()}, {7, net.ParseIP("fd00::1").To16()}},
	{{7, net.ParseIP("2606:4700:4700::1111").To16()}, {7, net.ParseIP("2001:4860:4860::8888").To16()}, {7, net.ParseIP("fe80::1").To16()}},
	{{7, net.ParseIP("8.8.8.8").To4()}, {7, net.ParseIP("2606:4700:4700::1111").To16()}, {7, net.ParseIP("::1").To16()}},
	{{7, net.ParseIP("8.8.8.8").To4()}, {7, net.ParseIP("10.0.0.1").To4()}},
	{{7, net.ParseIP("1.1.1.1").To4()}, {7, net.ParseIP("8.8.8.8").To4()}, {7, net.ParseIP("192.168.0.1").To4()}},
	{{7, net.ParseIP("2001:4860:4860::8888").To16()}, {7, net.ParseIP("8.8.4.4").To16()}, {7, net.ParseIP("2001:db8::1").To16()}},
	{{7, net.ParseIP("2606:4700::1").To16()}, {7, net.ParseIP("2606:4700::1").To16()}, {7, net.ParseIP("ff02::1").To16()}},
	{{1, []byte("a@example.com")}, {1, []byte("A@EXAMPLE.COM")}},
	{{6, []byte("http://example.com/")}, {6, []byte("HTTP://EXAMPLE.COM/")}, {6, []byte("mailto:a@example.com")}},
	{{2, []byte("www..example.com")}, {2, []byte("a.example.com")}, {2, []byte("b.example.com")}},
	{{2, []byte("1.1.168.192.in-addr.arpa")}, {2, []byte("1.1.1.1.0.0.0.0.0.0.0.0.0.0.0.0.0.0.0.0.0.0.7.4.0.0.7.4.6.0.6.2.ip6.arpa")}, {2, []byte("www.example.com")}},
	{{2, []byte("8.8.8.8.in-addr.arpa")}, {2, []byte("1.0.0.0.0.0.0.0.0.0.0.0.0.0.0.0.0.0.0.0.0.0.0.0.8.b.d.0.1.0.0.2.ip6.arpa")}, {2, []byte("1.0.0.10.in-addr.arpa")}},
	{{2, []byte("1.168.192.in-addr.arpa")}, {2, []byte("x.ip6.arpa")}, {2, []byte("1.1.168.192.in-addr.arpa")}},
	{{2, []byte("a.onion")}, {2, []byte(strings.Repeat("a", 56) + ".onion")}, {2, []byte("www.example.com")}},
	{{2, []byte("xn--caf-dma.example.com")}, {2, []byte("xn--bad!.example.com")}, {2, []byte("example.com")}},
	{{2, []byte("example.invalidtld")}, {2, []byte("example.com")}, {2, []byte("192.168.0.1")}},
	// a dNSName with bytes outside IA5 next to clean ones
	{{2, []byte("caf\xc3\xa9.example.com")}, {2, []byte("www.example.com")}},
	{{2, []byte("www.example.com")}, {2, []byte("\xff.example.com")}, {7, net.ParseIP("8.8.8.8").To4()}, {6, []byte("http://example.com/")}},
	{{1, []byte("caf\xc3\xa9@example.com")}, {1, []byte("a@example.com")}, {6, []byte("http://caf\xc3\xa9.example.com/")}, {6, []byte("http://example.com/")}},
	// an A-label that does not decode next to one that decodes to text that is not in normalisation form C
	{{2, []byte("xn--bad!.example.com")}, {2, []byte("xn--ex-8tb.example.com")}},
	{{2, []byte("xn--0.example.com")}, {2, []byte("www.example.com")}, {2, []byte("a.xn--ex-8tb.example.com")}},
	{{2, []byte("xn--a.example.com")}, {2, []byte("xn--.example.com")}, {2, []byte("xn--caf-dma.example.com")}},
	{{2, []byte(strings.Repeat("z", 64) + ".example.com")}, {2, []byte("a.example.com")}, {2, []byte("m.example.com")}},
	// a name in absolute form (trailing dot) in lists of three, five, six and seven names (a list whose length is not a
	// power of two has spare capacity behind it)
	{{2, []byte("www.example.com")}, {2, []byte("example.com.")}, {2, []byte("mail.example.com")}},
	{{2, []byte("a.example.com")}, {2, []byte("b.example.com")}, {2, []byte("c.example.com.")}, {2, []byte("d.example.com")}, {2, []byte("e.example.com")}},
	{{2, []byte("a.example.org.")}, {2, []byte("b.example.org")}, {2, []byte("c.example.org")}, {2, []byte("d.example.org")}, {2, []byte("e.example.org")}, {2, []byte("F.EXAMPLE.ORG.")}},
	{{2, []byte("a.example.net")}, {2, []byte("b.example.net")}, {2, []byte("c.example.net")}, {2, []byte("localhost")}, {2, []byte("e.example.net")}, {2, []byte("f.example.net.")}, {2, []byte("co.uk")}},
	// onion names next to their own wildcard (wildcards are allowed under .onion), next to names the public-suffix parser
	// refuses, and in every position
	{{2, []byte(strings.Repeat("a", 56) + ".onion")}, {2, []byte("*." + strings.Repeat("a", 56) + ".onion")}},
	{{2, []byte("localhost")}, {2, []byte("*." + strings.Repeat("b", 56) + ".onion")}, {2, []byte("www.example.com")}},
	{{2, []byte("facebookcorewwwi.onion")}, {2, []byte("*." + strings.Repeat("a", 56) + ".onion")}, {2, []byte("*.example.com")}},
	// dNSNames that are the text of an address (the common name gets the same text in one of the variants below)
	{{2, []byte("2001:db8::1")}, {2, []byte("www.example.com")}},
	{{2, []byte("www.example.com")}, {2, []byte("10.0.0.1")}, {2, []byte("::1")}},
	{{2, []byte("a_b.example.com")}, {2, []byte("www.example.com")}, {2, []byte("fe80::1")}},
	// names without a dot: one that is itself a delegated TLD, one that is not, an absolute name
	{{2, []byte("exchange")}, {2, []byte("autodiscover")}, {2, []byte("mail.example.com")}},
	{{2, []byte("com")}, {2, []byte("localhost")}},
	{{2, []byte("email")}, {2, []byte("www.example.com.")}, {2, []byte("intranet")}},
	{{2, []byte("office")}, {2, []byte("office")}, {2, []byte("server1")}},
	// names related as strings but not as names: a final label that ends in (starts with, contains) another name's final
	// label, a name that ends in another name without a label boundary between them
	{{2, []byte("www.example.net")}, {2, []byte("host.intranet")}},
	{{2, []byte("www.example.com")}, {2, []byte("host.xcom")}, {2, []byte("host.comx")}},
	{{2, []byte("www.example.org")}, {2, []byte("www.cyborg")}, {2, []byte("www.example.organic")}},
	{{2, []byte("example.com")}, {2, []byte("badexample.com")}, {2, []byte("ample.com")}},
	{{2, []byte("a.co.uk")}, {2, []byte("a.souk")}, {2, []byte("a.uk")}, {2, []byte("a.ukx")}},
	{{2, []byte("host.internal")}, {2, []byte("www.example.al")}, {2, []byte("www.example.international")}},
	{{2, []byte("www.example.de")}, {2, []byte("host.inside")}, {2, []byte("www.example.dev")}},
	// label lengths counted in octets and in characters differ: 31 two-octet characters and two letters are 64 octets
	// and 33 characters; 21 three-octet characters are 63 octets
	{{2, []byte(strings.Repeat("\xc3\xa9", 31) + "aa.example.com")}, {2, []byte("www.example.com")}},
	{{2, []byte(strings.Repeat("\xe2\x82\xac", 21) + ".example.com")}, {2, []byte(strings.Repeat("\xe2\x82\xac", 21) + "a.example.com")}},
	{{2, []byte(strings.Repeat("a", 63) + ".example.com")}, {2, []byte(strings.Repeat("a", 62) + "\xc3\xa9.example.com")}, {2, []byte(strings.Repeat("a", 61) + "\xc3\xa9.example.com")}},
}

// removedAndActiveTLDs: a few top-level domains of each status from the delegation table
func tldSamples() (removed, active []string) {
	m := util.VerifTLDMap()
	keys := sortedKeys(m)
	for _, k := range keys {
		if strings.HasPrefix(k, "xn--") {
			continue
		}
		if m[k].RemovalDate != "" && (len(removed) < 6 || (m[k].RemovalDate >= "2023-10-02" && len(removed) < 12)) {
			removed = append(removed, k)
		}
		if m[k].RemovalDate == "" && len(active) < 3 && len(k) > 3 {
			active = append(active, k)
		}
	}
	return
}

var zooCache = map[string][]ZooCert{}

// certZoo builds the population (deterministic for a given tier; cached per process)
func certZoo() []ZooCert {
	key := tier()
	if z, ok := zooCache[key]; ok {
		return z
	}
	thorough := tier() == "thorough"
	rng := NewRng(seedFromEnv(), "zoo")
	var out []ZooCert
	add := func(class, what string, der []byte) {
		c, err := safeParseCert(der)
		if err != nil {
			return
		}
		out = append(out, ZooCert{CorpusCert{fmt.Sprintf("zoo-%s-%s", class, what), der, c}, class})
	}
	issueT := func(class, what string, t *stdx509.Certificate) {
		if der, _, err := issue(t, nil); err == nil {
			add(class, what, der)
		}
	}
	// (1) key usage x extended key usage
	ekus := []stdx509.ExtKeyUsage{stdx509.ExtKeyUsageServerAuth, stdx509.ExtKeyUsageClientAuth, stdx509.ExtKeyUsageEmailProtection, stdx509.ExtKeyUsageCodeSigning,
		stdx509.ExtKeyUsageTimeStamping, stdx509.ExtKeyUsageOCSPSigning, stdx509.ExtKeyUsageAny}
	var ekuLists [][]stdx509.ExtKeyUsage
	ekuLists = append(ekuLists, nil)
	for _, a := range ekus {
		ekuLists = append(ekuLists, []stdx509.ExtKeyUsage{a})
		for _, b := range ekus {
			if a != b {
				ekuLists = append(ekuLists, []stdx509.ExtKeyUsage{a, b})
			}
		}
	}
	kus := []stdx509.KeyUsage{0, stdx509.KeyUsageDigitalSignature, stdx509.KeyUsageDigitalSignature | stdx509.KeyUsageKeyEncipherment, stdx509.KeyUsageKeyEncipherment,
		stdx509.KeyUsageContentCommitment, stdx509.KeyUsageDigitalSignature | stdx509.KeyUsageContentCommitment, stdx509.KeyUsageKeyAgreement, stdx509.KeyUsageDataEncipherment,
		stdx509.KeyUsageCertSign | stdx509.KeyUsageCRLSign, stdx509.KeyUsageDigitalSignature | stdx509.KeyUsageKeyAgreement | stdx509.KeyUsageEncipherOnly,
		stdx509.KeyUsageDigitalSignature | stdx509.KeyUsageKeyEncipherment | stdx509.KeyUsageDataEncipherment | stdx509.KeyUsageKeyAgreement}
	for _, es := range ekuLists {
		for _, ku := range kus {
			t := leafTemplate()
			t.ExtKeyUsage, t.KeyUsage = es, ku
			if len(es) > 0 && es[0] == stdx509.ExtKeyUsageEmailProtection {
				t.EmailAddresses = []string{"a@example.com"}
			}
			issueT("ku-eku", fmt.Sprintf("%v-%d", es, ku), t)
		}
	}
	// (1b) extended key usages the parser has no constant for (they land in UnknownExtKeyUsage), alone and next to known
	// ones, under every scope profile
	{
		unknown := []asn1.ObjectIdentifier{{1, 3, 6, 1, 5, 5, 7, 3, 36}, {1, 3, 6, 1, 4, 1, 311, 10, 3, 12}, {1, 2, 3, 4, 5}}
		for _, p := range scopeProfiles() {
			for vi, known := range [][]stdx509.ExtKeyUsage{nil, {stdx509.ExtKeyUsageEmailProtection}, {stdx509.ExtKeyUsageServerAuth}, {stdx509.ExtKeyUsageClientAuth, stdx509.ExtKeyUsageEmailProtection}} {
				for ui := range unknown {
					t := leafTemplate()
					t.NotBefore = time.Date(2024, 10, 1, 0, 0, 0, 0, time.UTC)
					t.NotAfter = time.Date(2025, 3, 1, 0, 0, 0, 0, time.UTC)
					p.apply(t)
					t.ExtKeyUsage = known
					t.UnknownExtKeyUsage = []asn1.ObjectIdentifier{unknown[ui]}
					if vi == 3 && ui == 0 {
						t.UnknownExtKeyUsage = unknown
					}
					t.RawSubject = rawSubject(p.base, nil)
					issueT("unknown-eku", fmt.Sprintf("%s-%d-%d", p.name, vi, ui), t)
				}
			}
		}
	}
	// (1c) S/MIME certificates: rfc822Names of every shape in the SAN (no '@', empty local part or domain, two '@', upper
	// case, non-ASCII, SmtpUTF8Mailbox otherName) against mailbox addresses in the subject (emailAddress attribute, common name)
	{
		mails := []string{"a@example.com", "postmaster", "", "@", "a@", "@example.com", "A@EXAMPLE.COM", "a b@example.com", "a@b@example.com", "caf\xc3\xa9@example.com", "a@example.com."}
		for pi, p := range scopeProfiles() {
			if !strings.HasPrefix(p.name, "smime-") && p.name != "no-policy-email-eku" {
				continue
			}
			for mi, m := range mails {
				for v := 0; v < 3; v++ {
					t := leafTemplate()
					t.NotBefore = time.Date(2024, 10, 1, 0, 0, 0, 0, time.UTC)
					t.NotAfter = time.Date(2025, 3, 1, 0, 0, 0, 0, time.UTC)
					p.apply(t)
					t.EmailAddresses = nil
					names := []genName{{1, []byte(m)}}
					attrs := append([]subjAttr{}, p.base...)
					switch v {
					case 0: // the subject carries a proper mailbox address, the SAN the odd one
						attrs = append(attrs, sa("emailAddress", "a@example.com"))
					case 1: // the same odd value on both sides, plus a proper rfc822Name
						attrs = append(attrs, sa("emailAddress", m))
						names = append(names, genName{1, []byte("a@example.com")})
					case 2: // mailbox in the common name, odd rfc822Name after a proper one
						attrs = []subjAttr{sa("commonName", "a@example.com")}
						names = []genName{{1, []byte("a@example.com")}, {1, []byte(m)}}
					}
					if (pi+mi+v)%3 == 0 {
						// id-on-SmtpUTF8Mailbox otherName: [0] { OID 1.3.6.1.5.5.7.8.9, [0] UTF8String }
						on := concat(encTLV(0x06, []byte{0x2b, 0x06, 0x01, 0x05, 0x05, 0x07, 0x08, 0x09}), encTLV(0xa0, encTLV(0x0c, []byte(m))))
						names = append(names, genName{0, on})
					}
					t.RawSubject = rawSubject(attrs, nil)
					t.ExtraExtensions = append(t.ExtraExtensions, generalNamesExt(asn1SAN, names, false))
					issueT("smime-mail", fmt.Sprintf("%s-%d-%d", p.name, mi, v), t)
				}
			}
		}
	}
	// (2) signature algorithm substitution on generated leaves
	for i, base := range []func() *stdx509.Certificate{leafTemplate, func() *stdx509.Certificate { t := leafTemplate(); t.IsCA = true; t.KeyUsage = stdx509.KeyUsageCertSign; t.ExtKeyUsage = nil; return t }} {
		if der, _, err := issue(base(), nil); err == nil {
			for _, a := range sigAlgs {
				if mut, err := replaceSigAlg(der, a.der, []byte{0x30, 0x06, 0x02, 0x01, 0x01, 0x02, 0x01, 0x01}); err == nil {
					add("sigalg", fmt.Sprintf("%d-%s", i, a.name), mut)
				}
			}
		}
	}
	// (2a) signature values of every length class under each declared algorithm (an ECDSA-Sig-Value is at most 72, 104 or
	// 139 octets on the NIST curves; RSA signatures are 128..512), random content
	if der, _, err := issue(leafTemplate(), nil); err == nil {
		for _, a := range []int{0, 3, 4, 7, 8} {
			for _, n := range []int{0, 1, 8, 64, 70, 72, 73, 104, 105, 139, 140, 256, 512} {
				if mut, err := replaceSigAlg(der, sigAlgs[a].der, rng.Bytes(n)); err == nil {
					add("sigalg", fmt.Sprintf("len-%s-%d", sigAlgs[a].name, n), mut)
				}
			}
		}
	}
	// (2b) the two copies of the algorithm identifier disagree, in every combination of short and long encodings
	if der, _, err := issue(leafTemplate(), nil); err == nil {
		algs := append(append([]struct {
			name string
			der  []byte
		}{}, sigAlgs[0], sigAlgs[3], sigAlgs[7]), longSigAlgs()...)
		for _, in := range algs {
			for _, outer := range algs {
				if mut, err := replaceSigAlgs(der, in.der, outer.der, nil); err == nil {
					add("sigalg", fmt.Sprintf("in-%s-out-%s", in.name, outer.name), mut)
				}
			}
		}
	}
	// (3) structured subjects (a sample of the C02 population) and oddly typed / truncated string values
	{
		nRand := 150
		if thorough {
			nRand = 1500
		}
		sc := structuredSubjects(rng, false, nRand)
		step := 9
		if thorough {
			step = 2
		}
		for i, c := range sc {
			if i%step == 0 || strings.HasPrefix(c.Why, "random") {
				add("subject", fmt.Sprint(i), c.DER)
			}
		}
		for i, c := range oddStringSubjects() {
			add("subject-string-type", fmt.Sprint(i), c)
		}
	}
	// (4) extensions that are present but empty or minimal
	for _, h := range hostileExtensions {
		for _, crit := range []bool{false, true} {
			t := leafTemplate()
			if h.oid.Equal(asn1.ObjectIdentifier{2, 5, 29, 15}) {
				t.KeyUsage = 0
			}
			if h.oid.Equal(asn1.ObjectIdentifier{2, 5, 29, 37}) {
				t.ExtKeyUsage = nil
			}
			if h.oid.Equal(asn1SAN) {
				t.DNSNames = nil
			}
			t.ExtraExtensions = append(t.ExtraExtensions, pkix.Extension{Id: h.oid, Critical: crit, Value: h.val})
			issueT("extension", fmt.Sprintf("%s-%v", strings.ReplaceAll(h.why, " ", "_"), crit), t)
		}
	}
	// (4b) Tor service descriptors (CA/B Forum 2.23.140.1.31): well-formed hashes with onion URIs of many shapes, and
	// odd hash sizes / algorithms with a good URI
	{
		sha := map[string][]byte{"sha256": {0x60, 0x86, 0x48, 0x01, 0x65, 0x03, 0x04, 0x02, 0x01}, "sha384": {0x60, 0x86, 0x48, 0x01, 0x65, 0x03, 0x04, 0x02, 0x02},
			"sha512": {0x60, 0x86, 0x48, 0x01, 0x65, 0x03, 0x04, 0x02, 0x03}, "sha1": {0x2b, 0x0e, 0x03, 0x02, 0x1a}}
		bits := map[string]int{"sha256": 256, "sha384": 384, "sha512": 512, "sha1": 160}
		mk := func(uri string, alg string, nbits int, withParams bool) []byte {
			algID := encTLV(0x06, sha[alg])
			if withParams {
				algID = concat(algID, []byte{0x05, 0x00})
			}
			hash := make([]byte, nbits/8)
			for i := range hash {
				hash[i] = byte(i + 1)
			}
			one := encTLV(0x30, concat(encTLV(0x0c, []byte(uri)), encTLV(0x30, algID), encTLV(0x03, append([]byte{0}, hash...))))
			return encTLV(0x30, one)
		}
		good := "https://zmapzmapzmapzmap.onion"
		uris := []string{good, " " + good, good + "\n", good + " ", "\t" + good, "http://zmapzmapzmapzmap.onion", "https://", "https:///path", "", ":", "%zz", "https://user@zmapzmapzmapzmap.onion",
			"https://zmapzmapzmapzmap.onion:443/x?y#z", "HTTPS://ZMAPZMAPZMAPZMAP.ONION", "https://[::1]/", "zmapzmapzmapzmap.onion", "https://zmapzmapzmapzmap.onion\x00", "https://exa mple.onion", "//zmapzmapzmapzmap.onion",
			"https://" + strings.Repeat("a", 56) + ".onion", "\nhttps://zmapzmapzmapzmap.onion\n",
			// an authority that is not empty but names no host
			"https://:443", "https://:", "https://[]", "https://[]:443", "https://user@", "https://user@:80/", "https://@/", "https://:443/zmapzmapzmapzmap.onion", "https:", "https:/", "https://?q", "https://#f"}
		for i, u := range uris {
			t := leafTemplate()
			t.DNSNames = []string{"zmapzmapzmapzmap.onion"}
			t.Subject.CommonName = "zmapzmapzmapzmap.onion"
			t.PolicyIdentifiers = []asn1.ObjectIdentifier{{2, 23, 140, 1, 1}}
			t.ExtraExtensions = append(t.ExtraExtensions, pkix.Extension{Id: asn1.ObjectIdentifier{2, 23, 140, 1, 31}, Value: mk(u, "sha256", 256, i%2 == 0)})
			issueT("tor", fmt.Sprintf("uri-%d", i), t)
		}
		j := 0
		for alg, nb := range bits {
			for _, d := range []int{0, -8, 8} {
				j++
				t := leafTemplate()
				t.DNSNames = []string{"zmapzmapzmapzmap.onion"}
				t.PolicyIdentifiers = []asn1.ObjectIdentifier{{2, 23, 140, 1, 1}}
				t.ExtraExtensions = append(t.ExtraExtensions, pkix.Extension{Id: asn1.ObjectIdentifier{2, 23, 140, 1, 31}, Value: mk(good, alg, nb+d, false)})
				issueT("tor", fmt.Sprintf("hash-%s-%d", alg, nb+d), t)
			}
		}
		_ = j
	}
	// (4c) name constraints of every form (dNSName, rfc822Name, iPAddress, URI), permitted and excluded, with values that
	// start with the characters the helpers strip or treat specially
	{
		vals := []string{"example.com", ".example.com", "", ".", "?", "?example.com", "?.example.com", "??.example.com", ".?example.com", "*.example.com", "*", "EXAMPLE.com", "example.com.", "a..b",
			"xn--caf-dma.com", "host", "user@example.com", "@example.com", "http://example.com", "//example.com", "[::1]", "10.0.0.1", " ", "%", "exa mple.com"}
		for i, v := range vals {
			for form := 0; form < 4; form++ {
				t := leafTemplate()
				t.IsCA, t.KeyUsage, t.ExtKeyUsage, t.DNSNames = true, stdx509.KeyUsageCertSign|stdx509.KeyUsageCRLSign, nil, nil
				t.Subject.CommonName = "Constrained CA"
				t.PermittedDNSDomainsCritical = form%2 == 0
				switch form {
				case 0:
					t.PermittedDNSDomains = []string{v}
					t.ExcludedURIDomains = []string{v}
				case 1:
					t.PermittedURIDomains = []string{v, "example.org"}
				case 2:
					t.ExcludedDNSDomains = []string{"example.org", v}
					t.PermittedEmailAddresses = []string{v}
				case 3:
					t.ExcludedEmailAddresses = []string{v}
					t.PermittedURIDomains = []string{v}
					_, n1, _ := net.ParseCIDR("10.0.0.0/8")
					_, n2, _ := net.ParseCIDR("2001:db8::/32")
					t.PermittedIPRanges = []*net.IPNet{n1}
					t.ExcludedIPRanges = []*net.IPNet{n2}
				}
				issueT("name-constraints", fmt.Sprintf("%d-%d", i, form), t)
			}
		}
	}
	// (5) names: every pool name alone (SAN, and as common name), related-name groups, many SANs
	for i, n := range namePool {
		for _, inCN := range []bool{false, true} {
			t := leafTemplate()
			t.DNSNames = nil
			if inCN && n.tag == 2 {
				t.Subject.CommonName = string(n.value)
			} else if inCN {
				continue
			}
			t.ExtraExtensions = append(t.ExtraExtensions, generalNamesExt(asn1SAN, []genName{n}, false))
			issueT("name", fmt.Sprintf("%d-%v", i, inCN), t)
		}
	}
	for i, g := range relatedNameGroups {
		firstDNS, lastDNS := "", ""
		for _, n := range g {
			if n.tag == 2 {
				if firstDNS == "" {
					firstDNS = string(n.value)
				}
				lastDNS = string(n.value)
			}
		}
		for v, cn := range []string{"", "example.com", "other.example.net", firstDNS, lastDNS} {
			if v >= 3 && (cn == "" || cn == "example.com" || (v == 4 && cn == firstDNS)) {
				continue
			}
			t := leafTemplate()
			t.DNSNames = nil
			t.Subject.CommonName = cn
			t.ExtraExtensions = append(t.ExtraExtensions, generalNamesExt(asn1SAN, g, false))
			issueT("related-names", fmt.Sprintf("%d-%d", i, v), t)
		}
	}
	// the related-name groups again under every certificate profile that keeps dNSNames (DV / OV / IV / EV policies, code
	// signing, sub-CA, ...): which lints see a name list depends on the profile
	for pi, p := range scopeProfiles() {
		if strings.HasPrefix(p.name, "smime") {
			continue
		}
		for i, g := range relatedNameGroups {
			if !thorough && (i+pi)%3 != 0 && p.name != "tls-ev" {
				continue
			}
			t := leafTemplate()
			t.NotBefore = time.Date(2024, 10, 1, 0, 0, 0, 0, time.UTC)
			t.NotAfter = time.Date(2025, 3, 1, 0, 0, 0, 0, time.UTC)
			p.apply(t)
			t.DNSNames = nil
			t.RawSubject = rawSubject(p.base, nil)
			t.ExtraExtensions = append(t.ExtraExtensions, generalNamesExt(asn1SAN, g, false))
			issueT("related-names", fmt.Sprintf("%d-%s", i, p.name), t)
		}
	}
	for i, der := range manySanCerts() {
		add("many-san", fmt.Sprint(i), der)
	}
	// (6) names and AIA hosts under top-level domains of every status, dated inside and after the delegation period
	{
		removed, active := tldSamples()
		m := util.VerifTLDMap()
		for _, k := range append(append([]string{}, removed...), active...) {
			dl, err := time.Parse(util.GTLDPeriodDateFormat, m[k].DelegationDate)
			if err != nil {
				continue
			}
			dates := []time.Time{dl.AddDate(0, 1, 0), time.Date(2024, 3, 1, 0, 0, 0, 0, time.UTC)}
			if dl.Before(time.Date(2012, 1, 1, 0, 0, 0, 0, time.UTC)) {
				dates[0] = time.Date(2016, 1, 1, 0, 0, 0, 0, time.UTC)
			}
			for di, nb := range dates {
				for v := 0; v < 2; v++ {
					t := leafTemplate()
					t.NotBefore, t.NotAfter = nb, nb.AddDate(0, 3, 0)
					t.Subject.CommonName = "www.example." + k
					t.DNSNames = []string{"www.example." + k, "example." + k}
					t.OCSPServer = []string{"http://ocsp.example." + k + "/"}
					t.IssuingCertificateURL = []string{"http://ca.example.com/ca.crt"}
					if v == 1 {
						t.OCSPServer = []string{"http://ocsp.example.com/"}
						t.IssuingCertificateURL = []string{"http://ca.example." + k + "/ca.crt", "http://ca.example.org/ca.crt"}
						t.CRLDistributionPoints = []string{"http://crl.example." + k + "/x.crl"}
					}
					issueT("tld", fmt.Sprintf("%s-%d-%d", k, di, v), t)
					// the same in the scope of both the TLS and the S/MIME documents (both AIA internal-name rules run)
					t2 := *t
					t2.SerialNumber = big.NewInt(int64(900000 + len(out)))
					t2.NotBefore, t2.NotAfter = time.Date(2023, 10, 1, 0, 0, 0, 0, time.UTC), time.Date(2024, 1, 1, 0, 0, 0, 0, time.UTC)
					t2.ExtKeyUsage = []stdx509.ExtKeyUsage{stdx509.ExtKeyUsageServerAuth, stdx509.ExtKeyUsageEmailProtection}
					t2.EmailAddresses = []string{"a@example.com"}
					t2.PolicyIdentifiers = []asn1.ObjectIdentifier{{2, 23, 140, 1, 5, 1, 1}}
					issueT("tld", fmt.Sprintf("%s-%d-%d-smime", k, di, v), &t2)
				}
			}
		}
		// the instants around the two dates of a period: the last second before, midnight itself, the first second
		// after, noon and the last second of the day (a date with day resolution is an instant for the table)
		for ki, k := range append(append([]string{}, removed...), active...) {
			if ki%3 != 0 && !thorough {
				continue
			}
			for di, ds := range []string{m[k].DelegationDate, m[k].RemovalDate} {
				day, err := time.Parse(util.GTLDPeriodDateFormat, ds)
				if err != nil {
					continue
				}
				for oi, off := range []time.Duration{-time.Second, 0, time.Second, 12 * time.Hour, 24*time.Hour - time.Second, 24 * time.Hour} {
					t := leafTemplate()
					t.NotBefore = day.Add(off)
					t.NotAfter = t.NotBefore.AddDate(0, 3, 0)
					t.Subject.CommonName = "www.example." + k
					t.DNSNames = []string{"www.example." + k}
					issueT("tld", fmt.Sprintf("%s-day%d-%d", k, di, oi), t)
				}
			}
		}
		for _, nm := range []string{"example.invalidtld", "example.local", "intranet", "example.xn--com-", "example.test", "example.onion"} {
			t := leafTemplate()
			t.Subject.CommonName = nm
			t.DNSNames = []string{nm}
			t.OCSPServer = []string{"http://ocsp." + nm + "/"}
			issueT("tld", "unlisted-"+nm, t)
		}
	}
	// (6b) authority information access: every ordered pair of location kinds (public, internal name, unparseable,
	// without scheme, other scheme, address literal, empty), split over the two lists and inside one list, on a TLS
	// certificate and on one in the scope of both the TLS and the S/MIME documents
	{
		locs := []string{"http://ocsp.example.com/", "http://ocsp.pki.corp/", "http://ca.example.com/%zz.cer", "ca.example.com/ca.crt", "ldap://ldap.example.com/cn=CA?cACertificate;binary", "http://10.1.2.3/ca.crt", ""}
		for ai, a := range locs {
			for bi, b := range locs {
				for shape := 0; shape < 2; shape++ {
					for both := 0; both < 2; both++ {
						if !thorough && (ai+bi+shape+both)%2 == 1 && ai != 1 && bi != 1 {
							continue
						}
						t := leafTemplate()
						t.NotBefore, t.NotAfter = time.Date(2023, 10, 1, 0, 0, 0, 0, time.UTC), time.Date(2024, 1, 1, 0, 0, 0, 0, time.UTC)
						if shape == 0 {
							t.OCSPServer, t.IssuingCertificateURL = []string{a}, []string{b}
						} else {
							t.OCSPServer = []string{a, b}
						}
						if both == 1 {
							t.ExtKeyUsage = []stdx509.ExtKeyUsage{stdx509.ExtKeyUsageServerAuth, stdx509.ExtKeyUsageEmailProtection}
							t.EmailAddresses = []string{"a@example.com"}
							t.PolicyIdentifiers = []asn1.ObjectIdentifier{{2, 23, 140, 1, 5, 1, 1}}
						}
						issueT("aia", fmt.Sprintf("%d-%d-%d-%d", ai, bi, shape, both), t)
					}
				}
			}
		}
	}
	// (6c) certificate policies: every ordered pair and some triples of anyPolicy, the DV / OV / EV / S/MIME policies and an
	// unknown one, on a subscriber certificate and on a subordinate CA of the current BR era
	{
		pols := []asn1.ObjectIdentifier{{2, 5, 29, 32, 0}, {2, 23, 140, 1, 2, 1}, {2, 23, 140, 1, 2, 2}, {2, 23, 140, 1, 1}, {2, 23, 140, 1, 5, 1, 1}, {1, 3, 6, 1, 4, 1, 55555, 7}}
		var lists [][]asn1.ObjectIdentifier
		for _, a := range pols {
			lists = append(lists, []asn1.ObjectIdentifier{a})
			for _, b := range pols {
				lists = append(lists, []asn1.ObjectIdentifier{a, b})
			}
		}
		lists = append(lists, []asn1.ObjectIdentifier{pols[0], pols[1], pols[2]}, []asn1.ObjectIdentifier{pols[1], pols[0], pols[2]}, []asn1.ObjectIdentifier{pols[1], pols[2], pols[0]},
			[]asn1.ObjectIdentifier{pols[0], pols[5], pols[0]}, []asn1.ObjectIdentifier{pols[3], pols[0], pols[5], pols[1]})
		for li, l := range lists {
			for ca := 0; ca < 2; ca++ {
				t := leafTemplate()
				t.NotBefore, t.NotAfter = time.Date(2024, 2, 1, 0, 0, 0, 0, time.UTC), time.Date(2024, 12, 1, 0, 0, 0, 0, time.UTC)
				t.PolicyIdentifiers = l
				if ca == 1 {
					t.IsCA, t.BasicConstraintsValid, t.KeyUsage, t.ExtKeyUsage = true, true, stdx509.KeyUsageCertSign|stdx509.KeyUsageCRLSign, []stdx509.ExtKeyUsage{stdx509.ExtKeyUsageServerAuth}
					t.Subject = pkix.Name{Country: []string{"US"}, Organization: []string{"Example CA"}, CommonName: "Example Sub CA"}
					t.DNSNames = nil
				}
				issueT("policies", fmt.Sprintf("%d-%d", li, ca), t)
			}
		}
	}
	// (6d) public-key parameters the parser accepts but no key generator produces: DSA domain parameters and public values
	// of every relative size (P = 1, 2, a small prime, the real one; Q longer than P; G = 1; Y = 1, P - 1, P, Y + P, far
	// above P), on a server certificate of 2015 (inside the window of the DSA lints)
	for _, cc := range loadCorpus().Certs {
		if cc.File != "dsaUniqueRep.pem" && cc.File != "dsaCorrectOrderInSubgroup.pem" {
			continue
		}
		var spki struct {
			Alg struct {
				OID    asn1.ObjectIdentifier
				Params struct{ P, Q, G *big.Int }
			}
			Key asn1.BitString
		}
		if _, err := asn1.Unmarshal(cc.Cert.RawSubjectPublicKeyInfo, &spki); err != nil {
			continue
		}
		var y *big.Int
		if _, err := asn1.Unmarshal(spki.Key.Bytes, &y); err != nil {
			continue
		}
		P, Q, G := spki.Alg.Params.P, spki.Alg.Params.Q, spki.Alg.Params.G
		one, two := big.NewInt(1), big.NewInt(2)
		ps := []*big.Int{one, two, big.NewInt(23), P}
		qs := []*big.Int{one, big.NewInt(5), big.NewInt(11), Q, new(big.Int).Lsh(one, 300)}
		gs := []*big.Int{one, two, G}
		ys := []*big.Int{one, y, new(big.Int).Sub(P, one), P, new(big.Int).Add(y, P), new(big.Int).Lsh(one, 2100)}
		n := 0
		for pi, p := range ps {
			for qi, q := range qs {
				for gi, g := range gs {
					for yi, yy := range ys {
						real := 0
						if pi == 3 {
							real++
						}
						if qi == 3 {
							real++
						}
						if gi == 2 {
							real++
						}
						// everything around the real key, and every all-degenerate combination; the rest in the thorough tier
						if real < 2 && !(pi < 2 && gi == 0 && yi < 4) && !thorough {
							continue
						}
						pb, _ := asn1.Marshal(p)
						qb, _ := asn1.Marshal(q)
						gb, _ := asn1.Marshal(g)
						yb, _ := asn1.Marshal(yy)
						oid, _ := asn1.Marshal(spki.Alg.OID)
						nspki := encTLV(0x30, concat(encTLV(0x30, concat(oid, encTLV(0x30, concat(pb, qb, gb)))), encTLV(0x03, concat([]byte{0}, yb))))
						if der, err := replaceTBSField(cc.DER, 5, nspki); err == nil {
							add("key-params", fmt.Sprintf("%s-p%d-q%d-g%d-y%d", strings.TrimSuffix(cc.File, ".pem"), pi, qi, gi, yi), der)
							n++
						}
					}
				}
			}
		}
	}
	// (6e) genuine DSA groups of moderate size (q prime, p = kq + 1 prime, g of order q): public values inside the subgroup
	// (y = g^x), the same plus P, outside it, and the edges 1, 2, P - 2, P - 1 - keys the subgroup lint accepts at a size
	// the model exponentiates inside the assistant
	for _, cc := range loadCorpus().Certs {
		if cc.File != "dsaUniqueRep.pem" {
			continue
		}
		oid, _ := asn1.Marshal(asn1.ObjectIdentifier{1, 2, 840, 10040, 4, 1})
		for gi, grp := range dsaGroups() {
			p, q, g := grp[0], grp[1], grp[2]
			y := new(big.Int).Exp(g, big.NewInt(int64(12345+gi)), p)
			ys := []*big.Int{y, new(big.Int).Add(y, p), new(big.Int).Add(y, big.NewInt(1)), big.NewInt(1), big.NewInt(2), new(big.Int).Sub(p, big.NewInt(2)), new(big.Int).Sub(p, big.NewInt(1)), new(big.Int).Set(g)}
			for yi, yy := range ys {
				pb, _ := asn1.Marshal(p)
				qb, _ := asn1.Marshal(q)
				gb, _ := asn1.Marshal(g)
				yb, _ := asn1.Marshal(yy)
				nspki := encTLV(0x30, concat(encTLV(0x30, concat(oid, encTLV(0x30, concat(pb, qb, gb)))), encTLV(0x03, concat([]byte{0}, yb))))
				if der, err := replaceTBSField(cc.DER, 5, nspki); err == nil {
					add("key-params", fmt.Sprintf("group%d-y%d", gi, yi), der)
				}
			}
		}
	}
	// (7) own-key signatures under another issuer name
	for _, cc := range ownKeyCerts() {
		out = append(out, ZooCert{cc, "own-key"})
	}
	// (8) validity encodings the parser accepts
	if _, base, err := issue(leafTemplate(), nil); err == nil {
		for i, sh := range []string{"20240301000000Z", "20240301000000+0100", "20240301000000-0100", "20500101000000Z", "99991231235959Z", "20240301000000+0000"} {
			for _, pos := range []int{0, 1} {
				if der, err := replaceValidity(base.Raw, pos, 24, []byte(sh)); err == nil {
					add("validity", fmt.Sprintf("gen-%d-%d", i, pos), der)
				}
			}
		}
		for i, sh := range []string{"240301000000Z", "2403010000Z", "240301000000+0100", "2403010000+0100", "500101000000Z", "491231235959Z"} {
			for _, pos := range []int{0, 1} {
				if der, err := replaceValidity(base.Raw, pos, 23, []byte(sh)); err == nil {
					add("validity", fmt.Sprintf("utc-%d-%d", i, pos), der)
				}
			}
		}
	}
	// (9) the order-sensitive shapes of C05
	for i, der := range orderSensitiveCerts() {
		add("order-sensitive", fmt.Sprint(i), der)
	}
	// (11) counts: an attribute repeated seven or eight times next to another present once or three times (an index into
	// one list taken from the length of another), on a subscriber and on a CA certificate
	{
		rep := []string{"countryName", "stateOrProvinceName", "localityName", "organizationName", "organizationalUnitName", "streetAddress", "postalCode", "commonName", "organizationIdentifier", "givenName"}
		n := 0
		for _, a := range rep {
			for _, b := range rep {
				if a == b {
					continue
				}
				for _, counts := range [][2]int{{7, 1}, {8, 3}} {
					var attrs []subjAttr
					at, bt := attrByName(a), attrByName(b)
					for k := 0; k < counts[0]; k++ {
						attrs = append(attrs, subjAttr{at, at.pool[k%2], at.tag})
					}
					for k := 0; k < counts[1]; k++ {
						attrs = append(attrs, subjAttr{bt, bt.pool[0], bt.tag})
					}
					for ca := 0; ca < 2; ca++ {
						t := leafTemplate()
						if ca == 1 {
							t.IsCA, t.BasicConstraintsValid, t.KeyUsage, t.ExtKeyUsage = true, true, stdx509.KeyUsageCertSign|stdx509.KeyUsageCRLSign, nil
						}
						t.RawSubject = rawSubject(attrs, nil)
						issueT("subject-repeat", fmt.Sprintf("%s%dx-%s%dx-%d", a, counts[0], b, counts[1], ca), t)
						n++
					}
				}
			}
		}
	}
	// (10) numeric boundaries: serial numbers whose magnitude sits at either end of every octet length the encoder
	// accepts (a fixed-size buffer, a bit/byte conversion or a sign octet is a boundary of its own)
	for _, bl := range boundaryBitLens {
		for k, v := range boundaryValues(bl) {
			t := leafTemplate()
			t.SerialNumber = v
			issueT("serial", fmt.Sprintf("%d-%d", bl, k), t)
		}
	}
	sort.SliceStable(out, func(i, j int) bool { return out[i].Class < out[j].Class })
	zooCache[key] = out
	return out
}

// boundaryBitLens: bit lengths around every octet boundary up to and beyond the 20 octets RFC 5280 allows a serial
var boundaryBitLens = []int{1, 7, 8, 9, 15, 16, 17, 63, 64, 65, 127, 128, 129, 151, 152, 153, 158, 159, 160, 161, 162, 167, 168, 169, 175, 176, 177, 255, 256, 257}

// boundaryValues: the smallest and the largest integer of the given bit length and one in between
func boundaryValues(bl int) []*big.Int {
	lo := new(big.Int).Lsh(big.NewInt(1), uint(bl-1))
	hi := new(big.Int).Sub(new(big.Int).Lsh(big.NewInt(1), uint(bl)), big.NewInt(1))
	if bl == 1 {
		return []*big.Int{lo}
	}
	mid := new(big.Int).Add(lo, big.NewInt(1))
	return []*big.Int{lo, mid, hi}
}

func zooClasses(z []ZooCert) map[string]int {
	m := map[string]int{}
	for _, c := range z {
		m[c.Class]++
	}
	return m
}

// oddStringSubjects: attribute values in every string type, including BMPString / UniversalString values whose
// length is not a multiple of the character width, TeletexString with high bytes, and empty values
func oddStringSubjects() [][]byte {
	var out [][]byte
	cn := attrByName("commonName")
	org := attrByName("organizationName")
	vals := [][]byte{{}, {0x00}, {0x00, 0x54}, {0x00, 0x54, 0x00}, {0x00, 0x00, 0x00, 0x54}, {0x00, 0x00, 0x00, 0x54, 0x00}, {0x00, 0x00, 0x00, 0x54, 0x00, 0x00}, {0x00, 0x00, 0x00},
		{0xd8, 0x00}, {0xd8, 0x00, 0xdc, 0x00}, {0xff, 0xfe}, {0x00, 0x11, 0x00, 0x00}, {0x41, 0x80, 0xff}, {0xc3}, {0xc3, 0xa9}, []byte("plain")}
	for _, tag := range []int{12, 19, 20, 22, 26, 28, 30} {
		for _, v := range vals {
			for _, first := range []*attrType{cn, org} {
				attrs := []subjAttr{{attrByName("countryName"), "US", 19}}
				type atv struct {
					Type  asn1.ObjectIdentifier
					Value asn1.RawValue
				}
				b, err := asn1.Marshal(atv{first.oid, asn1.RawValue{Class: 0, Tag: tag, Bytes: v}})
				if err != nil {
					continue
				}
				rdn := asn1.RawValue{Class: 0, Tag: 17, IsCompound: true, Bytes: b}
				base := rawSubject(attrs, nil)
				var rdns []asn1.RawValue
				if _, err := asn1.Unmarshal(base, &rdns); err != nil {
					continue
				}
				rdns = append(rdns, rdn)
				raw, err := asn1.Marshal(rdns)
				if err != nil {
					continue
				}
				t := leafTemplate()
				t.RawSubject = raw
				t.PolicyIdentifiers = []asn1.ObjectIdentifier{{2, 23, 140, 1, 2, 2}}
				if der, _, err := issue(t, nil); err == nil {
					out = append(out, der)
				}
			}
		}
	}
	return out
}

var hostileExtensions = []struct {
	oid asn1.ObjectIdentifier
	val []byte
	why string
}{
	{asn1.ObjectIdentifier{2, 5, 29, 15}, []byte{0x03, 0x01, 0x00}, "keyUsage empty bit string"},
	{asn1.ObjectIdentifier{2, 5, 29, 15}, []byte{0x03, 0x02, 0x07, 0x80}, "keyUsage one bit"},
	{asn1.ObjectIdentifier{2, 5, 29, 15}, []byte{0x03, 0x02, 0x00, 0x00}, "keyUsage zero byte"},
	{asn1.ObjectIdentifier{2, 5, 29, 15}, []byte{0x03, 0x03, 0x07, 0xff, 0x80}, "keyUsage nine bits"},
	{asn1.ObjectIdentifier{2, 5, 29, 15}, []byte{0x03, 0x03, 0x06, 0x80, 0x40}, "keyUsage tenth bit"},
	{asn1.ObjectIdentifier{2, 5, 29, 15}, []byte{0x03, 0x03, 0x00, 0x00, 0x00}, "keyUsage trailing zero byte"},
	{asn1.ObjectIdentifier{1, 3, 6, 1, 4, 1, 11129, 2, 4, 2}, []byte{0x04, 0x00}, "SCT list empty octet string"},
	{asn1.ObjectIdentifier{1, 3, 6, 1, 4, 1, 11129, 2, 4, 2}, []byte{0x04, 0x02, 0x00, 0x00}, "SCT list zero length"},
	{asn1.ObjectIdentifier{1, 3, 6, 1, 4, 1, 11129, 2, 4, 2}, []byte{0x04, 0x01, 0x00}, "SCT list one byte"},
	{asn1.ObjectIdentifier{1, 3, 6, 1, 5, 5, 7, 1, 3}, []byte{0x30, 0x00}, "qcStatements empty"},
	{asn1.ObjectIdentifier{1, 3, 6, 1, 5, 5, 7, 1, 3}, []byte{0x30, 0x02, 0x30, 0x00}, "qcStatements empty statement"},
	{asn1.ObjectIdentifier{2, 5, 29, 9}, []byte{0x30, 0x00}, "subjectDirectoryAttributes empty"},
	{asn1.ObjectIdentifier{2, 5, 29, 31}, []byte{0x30, 0x00}, "crlDistributionPoints empty"},
	{asn1.ObjectIdentifier{2, 5, 29, 31}, []byte{0x30, 0x02, 0x30, 0x00}, "crlDistributionPoints empty point"},
	{asn1.ObjectIdentifier{1, 3, 6, 1, 5, 5, 7, 1, 1}, []byte{0x30, 0x00}, "AIA empty"},
	{asn1.ObjectIdentifier{2, 5, 29, 37}, []byte{0x30, 0x00}, "EKU empty"},
	{asn1.ObjectIdentifier{2, 5, 29, 32}, []byte{0x30, 0x00}, "policies empty"},
	{asn1.ObjectIdentifier{2, 5, 29, 30}, []byte{0x30, 0x00}, "nameConstraints empty"},
	{asn1.ObjectIdentifier{2, 5, 29, 17}, []byte{0x30, 0x00}, "SAN empty"},
	{asn1.ObjectIdentifier{2, 5, 29, 18}, []byte{0x30, 0x00}, "IAN empty"},
	{asn1.ObjectIdentifier{2, 23, 140, 1, 31}, []byte{0x30, 0x00}, "tor descriptor empty"},
	{asn1.ObjectIdentifier{1, 2, 840, 113583, 1, 1, 9, 1}, []byte{0x30, 0x00}, "adobe timestamp empty"},
	{asn1.ObjectIdentifier{2, 5, 29, 19}, []byte{0x30, 0x00}, "basicConstraints empty"},
	{asn1.ObjectIdentifier{2, 5, 29, 14}, []byte{0x04, 0x00}, "subjectKeyIdentifier empty"},
	{asn1.ObjectIdentifier{2, 5, 29, 35}, []byte{0x30, 0x00}, "authorityKeyIdentifier empty"},
	{asn1.ObjectIdentifier{2, 5, 29, 36}, []byte{0x30, 0x00}, "policyConstraints empty"},
	{asn1.ObjectIdentifier{2, 5, 29, 54}, []byte{0x02, 0x01, 0x00}, "inhibitAnyPolicy zero"},
	{asn1.ObjectIdentifier{2, 5, 29, 33}, []byte{0x30, 0x00}, "policyMappings empty"},
	{asn1.ObjectIdentifier{1, 3, 6, 1, 4, 1, 11129, 2, 4, 3}, []byte{0x05, 0x00}, "ct poison"},
	{asn1.ObjectIdentifier{1, 3, 6, 1, 5, 5, 7, 1, 24}, []byte{0x30, 0x03, 0x02, 0x01, 0x05}, "tls feature"},
	{asn1.ObjectIdentifier{2, 23, 140, 3, 1}, []byte{0x30, 0x00}, "cabf organization identifier empty"},
}

func init() {
	commands["zoo"] = func(args []string) error {
		out := NewOutput()
		z := certZoo()
		out.Data["classes"] = zooClasses(z)
		out.Stats["zoo"] = len(z)
		return out.Emit()
	}
}

// crlZoo / ocspZoo: generated revocation lists and OCSP responses (the corpus holds 28 and 2): entry reason codes of
// every value incl. negative and large ones, entry and list extensions that are present but odd, response statuses,
// absent nextUpdate.  Only what the parsers accept is returned.
var crlZooCache []CorpusCRL
var ocspZooCache []CorpusOCSP

func crlZoo() []CorpusCRL {
	if crlZooCache != nil {
		return crlZooCache
	}
	rng := NewRng(seedFromEnv(), "zoo-crl")
	k := getKit()
	reasonCodes := []int{-1, -128, -1 << 20, 0, 1, 2, 3, 4, 5, 6, 7, 8, 9, 10, 11, 12, 127, 128, 255, 1 << 20}
	n := 80
	if tier() == "thorough" {
		n = 600
	}
	for i := 0; i < n; i++ {
		tmpl := &stdx509.RevocationList{Number: big.NewInt(int64(1 + rng.Intn(1000))), ThisUpdate: time.Date(2024, 1, 1+rng.Intn(20), 0, 0, 0, 0, time.UTC)}
		if rng.Intn(6) != 0 {
			tmpl.NextUpdate = tmpl.ThisUpdate.Add(time.Duration(1+rng.Intn(400)) * 24 * time.Hour)
		} else {
			tmpl.NextUpdate = tmpl.ThisUpdate.Add(time.Hour)
		}
		for j := rng.Intn(4); j > 0; j-- {
			e := stdx509.RevocationListEntry{SerialNumber: big.NewInt(int64(1 + rng.Intn(1<<30))), RevocationTime: tmpl.ThisUpdate.Add(-time.Duration(rng.Intn(1000)) * time.Hour)}
			if i < len(reasonCodes) {
				e.ReasonCode = reasonCodes[i]
			} else if rng.Intn(3) != 0 {
				e.ReasonCode = pick(rng, reasonCodes)
			}
			if rng.Intn(4) == 0 {
				e.ExtraExtensions = append(e.ExtraExtensions, pkix.Extension{Id: asn1.ObjectIdentifier{2, 5, 29, 24}, Value: pick(rng, [][]byte{{0x18, 0x0f, '2', '0', '2', '3', '0', '1', '0', '1', '0', '0', '0', '0', '0', '0', 'Z'}, {0x18, 0x00}, {0x05, 0x00}})})
			}
			tmpl.RevokedCertificateEntries = append(tmpl.RevokedCertificateEntries, e)
		}
		if i < len(reasonCodes) && len(tmpl.RevokedCertificateEntries) == 0 {
			tmpl.RevokedCertificateEntries = []stdx509.RevocationListEntry{{SerialNumber: big.NewInt(77), RevocationTime: tmpl.ThisUpdate.Add(-time.Hour), ReasonCode: reasonCodes[i]}}
		}
		switch rng.Intn(6) {
		case 0:
			tmpl.ExtraExtensions = append(tmpl.ExtraExtensions, pkix.Extension{Id: asn1.ObjectIdentifier{2, 5, 29, 28}, Critical: true, Value: []byte{0x30, 0x00}})
		case 1:
			tmpl.ExtraExtensions = append(tmpl.ExtraExtensions, pkix.Extension{Id: asn1.ObjectIdentifier{2, 5, 29, 46}, Value: []byte{0x30, 0x00}})
		case 2:
			tmpl.ExtraExtensions = append(tmpl.ExtraExtensions, pkix.Extension{Id: asn1.ObjectIdentifier{2, 5, 29, 27}, Critical: true, Value: []byte{0x02, 0x01, 0x01}})
		}
		der, err := stdx509.CreateRevocationList(crand.Reader, tmpl, k.caCert, k.caKey)
		if err != nil {
			continue
		}
		crl, err := safeParseCRL(der)
		if err != nil {
			continue
		}
		crlZooCache = append(crlZooCache, CorpusCRL{fmt.Sprintf("zoo-crl-%d", i), der, crl})
	}
	// numeric boundaries: entry serials and CRL numbers at either end of every octet length, alone and duplicated
	for _, bl := range boundaryBitLens {
		for vi, v := range boundaryValues(bl) {
			for dup := 0; dup < 2; dup++ {
				tmpl := &stdx509.RevocationList{Number: big.NewInt(int64(9000 + bl)), ThisUpdate: time.Date(2024, 3, 1, 0, 0, 0, 0, time.UTC), NextUpdate: time.Date(2024, 3, 5, 0, 0, 0, 0, time.UTC)}
				if dup == 1 && bl <= 159 {
					tmpl.Number = v
				}
				tmpl.RevokedCertificateEntries = []stdx509.RevocationListEntry{{SerialNumber: v, RevocationTime: tmpl.ThisUpdate.Add(-time.Hour)},
					{SerialNumber: big.NewInt(5), RevocationTime: tmpl.ThisUpdate.Add(-2 * time.Hour)}}
				if dup == 1 {
					tmpl.RevokedCertificateEntries = append(tmpl.RevokedCertificateEntries, stdx509.RevocationListEntry{SerialNumber: new(big.Int).Set(v), RevocationTime: tmpl.ThisUpdate.Add(-3 * time.Hour)})
				}
				der, err := stdx509.CreateRevocationList(crand.Reader, tmpl, k.caCert, k.caKey)
				if err != nil {
					continue
				}
				if crl, err := safeParseCRL(der); err == nil {
					crlZooCache = append(crlZooCache, CorpusCRL{fmt.Sprintf("zoo-crl-serial-%d-%d-%d", bl, vi, dup), der, crl})
				}
			}
		}
	}
	// lifetimes exactly on a limit (10 days, 12 months, and one hour either side), starting in every month of a year: a
	// limit computed in calendar arithmetic must not depend on anything but the two instants
	for mth := 1; mth <= 12; mth++ {
		for li, life := range []func(time.Time) time.Time{
			func(t time.Time) time.Time { return t.AddDate(0, 0, 10) },
			func(t time.Time) time.Time { return t.AddDate(0, 0, 10).Add(time.Hour) },
			func(t time.Time) time.Time { return t.AddDate(0, 0, 10).Add(-time.Hour) },
			func(t time.Time) time.Time { return t.AddDate(0, 12, 0) },
			func(t time.Time) time.Time { return t.AddDate(0, 12, 0).Add(time.Hour) },
		} {
			if mth%2 == 0 && li > 1 && tier() != "thorough" {
				continue
			}
			tu := time.Date(2024, time.Month(mth), 5, 0, 0, 0, 0, time.UTC)
			tmpl := &stdx509.RevocationList{Number: big.NewInt(int64(8000 + mth*10 + li)), ThisUpdate: tu, NextUpdate: life(tu)}
			if der, err := stdx509.CreateRevocationList(crand.Reader, tmpl, k.caCert, k.caKey); err == nil {
				if crl, err := safeParseCRL(der); err == nil {
					crlZooCache = append(crlZooCache, CorpusCRL{fmt.Sprintf("zoo-crl-lifetime-%02d-%d", mth, li), der, crl})
				}
			}
		}
	}
	// times in an order no encoder produces: nextUpdate before (or equal to) thisUpdate, by swapping the two UTCTime fields of
	// a regular list (the signature is not looked at by the parser or the lints)
	for i, gap := range []time.Duration{24 * time.Hour, 5 * 24 * time.Hour, 400 * 24 * time.Hour, time.Second} {
		for _, withEntry := range []bool{false, true} {
			tu := time.Date(2024, 3, 10, 12, 0, 0, 0, time.UTC)
			tmpl := &stdx509.RevocationList{Number: big.NewInt(int64(7000 + i)), ThisUpdate: tu, NextUpdate: tu.Add(gap)}
			if withEntry {
				tmpl.RevokedCertificateEntries = []stdx509.RevocationListEntry{{SerialNumber: big.NewInt(99), RevocationTime: tu.Add(-time.Hour)}}
			}
			der, err := stdx509.CreateRevocationList(crand.Reader, tmpl, k.caCert, k.caKey)
			if err != nil {
				continue
			}
			a := []byte(tu.Format("060102150405Z"))
			b := []byte(tu.Add(gap).Format("060102150405Z"))
			ia, ib := bytes.Index(der, a), bytes.Index(der, b)
			if ia < 0 || ib < 0 || ia == ib {
				continue
			}
			sw := append([]byte{}, der...)
			copy(sw[ia:], b)
			copy(sw[ib:], a)
			if crl, err := safeParseCRL(sw); err == nil {
				crlZooCache = append(crlZooCache, CorpusCRL{fmt.Sprintf("zoo-crl-times-swapped-%d-%v", i, withEntry), sw, crl})
			}
		}
	}
	// large lists (a size-dependent code path is a code path): 130, 200 and 300 entries in no particular serial order,
	// the first listed entry with reason 0, the entry with the smallest serial with reason 7, one list with a duplicate
	for li, n := range []int{130, 200, 300, 2500, 9000} {
		tmpl := &stdx509.RevocationList{Number: big.NewInt(int64(5000 + li)), ThisUpdate: time.Date(2024, 2, 1, 0, 0, 0, 0, time.UTC), NextUpdate: time.Date(2024, 2, 8, 0, 0, 0, 0, time.UTC)}
		for j := 0; j < n; j++ {
			serial := int64((j*7919+li*13)%100000 + 1000)
			e := stdx509.RevocationListEntry{SerialNumber: big.NewInt(serial), RevocationTime: tmpl.ThisUpdate.Add(-time.Duration(j+1) * time.Hour)}
			switch {
			case j == 0:
				e.ReasonCode = 2 // rewritten to 0 in the DER below (crypto/x509 refuses to emit an explicit 0)
			case j%5 == 1:
				e.ReasonCode = []int{1, 3, 4, 5, 9}[j%5]
			}
			tmpl.RevokedCertificateEntries = append(tmpl.RevokedCertificateEntries, e)
		}
		tmpl.RevokedCertificateEntries = append(tmpl.RevokedCertificateEntries, stdx509.RevocationListEntry{SerialNumber: big.NewInt(7), RevocationTime: tmpl.ThisUpdate.Add(-time.Hour), ReasonCode: 7})
		if li == 1 {
			tmpl.RevokedCertificateEntries = append(tmpl.RevokedCertificateEntries, tmpl.RevokedCertificateEntries[3])
		}
		der, err := stdx509.CreateRevocationList(crand.Reader, tmpl, k.caCert, k.caKey)
		if err != nil {
			continue
		}
		// the first reasonCode extension (2.5.29.21, OCTET STRING { ENUMERATED 2 }) becomes ENUMERATED 0
		if i := bytes.Index(der, []byte{0x06, 0x03, 0x55, 0x1d, 0x15, 0x04, 0x03, 0x0a, 0x01, 0x02}); i >= 0 {
			der[i+9] = 0
		}
		if crl, err := safeParseCRL(der); err == nil {
			crlZooCache = append(crlZooCache, CorpusCRL{fmt.Sprintf("zoo-crl-large-%d", n), der, crl})
		}
	}
	return crlZooCache
}

func ocspZoo() []CorpusOCSP {
	if ocspZooCache != nil {
		return ocspZooCache
	}
	rng := NewRng(seedFromEnv(), "zoo-ocsp")
	k := getKit()
	n := 40
	if tier() == "thorough" {
		n = 300
	}
	for i := 0; i < n; i++ {
		now := time.Date(2025, 2, 1+rng.Intn(20), rng.Intn(24), 0, 0, 0, time.UTC)
		t := ocsp.Response{Status: pick(rng, []int{ocsp.Good, ocsp.Revoked, ocsp.Unknown}), SerialNumber: big.NewInt(int64(1 + rng.Intn(1<<20))),
			ThisUpdate: now.Add(time.Duration(rng.Intn(5)-2) * time.Hour), ProducedAt: now}
		if rng.Intn(3) != 0 {
			t.NextUpdate = now.Add(time.Duration(rng.Intn(200)-20) * time.Hour)
		}
		if t.Status == ocsp.Revoked {
			t.RevokedAt = now.Add(-time.Hour)
			t.RevocationReason = pick(rng, []int{0, 1, 5, 7, 10, 11, 255})
		}
		der, err := ocsp.CreateResponse(k.caCert, k.caCert, t, k.caKey)
		if err != nil {
			continue
		}
		r, err := safeParseOCSP(der)
		if err != nil {
			continue
		}
		ocspZooCache = append(ocspZooCache, CorpusOCSP{fmt.Sprintf("zoo-ocsp-%d", i), der, r})
	}
	return ocspZooCache
}

func init() {
	commands["zoodump"] = func(args []string) error {
		for _, zc := range certZoo() {
			if len(args) > 0 && strings.Contains(zc.File, args[0]) {
				c := zc.Cert
				fmt.Fprintf(os.Stderr, "%s eku=%v unknown=%v policies=%v emails=%v nb=%v isCA=%v selfSigned=%v\n", zc.File, c.ExtKeyUsage, c.UnknownExtKeyUsage, c.PolicyIdentifiers, c.EmailAddresses, c.NotBefore, c.IsCA, c.SelfSigned)
				if len(args) > 1 {
					fmt.Fprintf(os.Stderr, "   %s -> %d\n", args[1], runCertLint(args[1], c))
				}
			}
		}
		return nil
	}
}
