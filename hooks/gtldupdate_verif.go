//go:build verif

package main

import (
	"bytes"
	"encoding/json"
	"fmt"
	"go/ast"
	"go/parser"
	"go/token"
	"io"
	"net/http"
	"os"
	"strconv"
	"strings"

	"github.com/zmap/zlint/v3/util"
)

// Probe injected with `go build -tags verif -overlay` by /verif. Add-only; never part of /repo.
//
// When VERIF_GTLD_CASES names a file, the program does not fetch anything: for each case of the file it serves the two
// ICANN documents from memory, runs renderGTLDMap, reads the entries back out of the Go source it printed and reports
// them on standard output as JSON; it also reports what validateGTLDs and delegatedGTLDs say about the case's entries.

type verifCase struct {
	GTLDBody   string
	TLDBody    string
	GTLDStatus int
	TLDStatus  int
	Entries    []util.GTLDPeriod
}

type verifResult struct {
	Err          string
	Entries      [][4]string // key, GTLD, DelegationDate, RemovalDate in printed order
	ValidateErr  string
	Delegated    int
	ParseProblem string
}

type verifTransport struct{ c *verifCase }

func (t verifTransport) RoundTrip(req *http.Request) (*http.Response, error) {
	body, status := "", 404
	switch req.URL.String() {
	case ICANN_GTLD_JSON:
		body, status = t.c.GTLDBody, t.c.GTLDStatus
	case ICANN_TLDS:
		body, status = t.c.TLDBody, t.c.TLDStatus
	}
	if status == 0 {
		return nil, fmt.Errorf("verif: no connection")
	}
	return &http.Response{StatusCode: status, Status: fmt.Sprint(status), Body: io.NopCloser(strings.NewReader(body)), Header: http.Header{}, Request: req,
		Proto: "HTTP/1.1", ProtoMajor: 1, ProtoMinor: 1}, nil
}

func verifEntries(src []byte) ([][4]string, string) {
	fset := token.NewFileSet()
	f, err := parser.ParseFile(fset, "gtld_map.go", src, 0)
	if err != nil {
		return nil, "printed source does not parse: " + err.Error()
	}
	var out [][4]string
	problem := ""
	str := func(e ast.Expr) string {
		bl, ok := e.(*ast.BasicLit)
		if !ok {
			problem = "non-literal in the table"
			return ""
		}
		s, err := strconv.Unquote(bl.Value)
		if err != nil {
			problem = "unquotable literal in the table"
		}
		return s
	}
	ast.Inspect(f, func(n ast.Node) bool {
		vs, ok := n.(*ast.ValueSpec)
		if !ok || len(vs.Names) != 1 || vs.Names[0].Name != "tldMap" || len(vs.Values) != 1 {
			return true
		}
		cl, ok := vs.Values[0].(*ast.CompositeLit)
		if !ok {
			return false
		}
		for _, el := range cl.Elts {
			kv, ok := el.(*ast.KeyValueExpr)
			if !ok {
				continue
			}
			row := [4]string{str(kv.Key)}
			if inner, ok := kv.Value.(*ast.CompositeLit); ok {
				for _, fe := range inner.Elts {
					if fkv, ok := fe.(*ast.KeyValueExpr); ok {
						if id, ok := fkv.Key.(*ast.Ident); ok {
							switch id.Name {
							case "GTLD":
								row[1] = str(fkv.Value)
							case "DelegationDate":
								row[2] = str(fkv.Value)
							case "RemovalDate":
								row[3] = str(fkv.Value)
							}
						}
					}
				}
			}
			out = append(out, row)
		}
		return false
	})
	return out, problem
}

func init() {
	p := os.Getenv("VERIF_GTLD_CASES")
	if p == "" {
		return
	}
	raw, err := os.ReadFile(p)
	if err != nil {
		fmt.Fprintln(os.Stderr, "verif:", err)
		os.Exit(3)
	}
	var cases []verifCase
	if err := json.Unmarshal(raw, &cases); err != nil {
		fmt.Fprintln(os.Stderr, "verif:", err)
		os.Exit(3)
	}
	results := make([]verifResult, len(cases))
	for i := range cases {
		c := &cases[i]
		httpClient = &http.Client{Transport: verifTransport{c}}
		var buf bytes.Buffer
		func() {
			defer func() {
				if pv := recover(); pv != nil {
					results[i].Err = fmt.Sprintf("panic: %v", pv)
				}
			}()
			if err := renderGTLDMap(&buf); err != nil {
				results[i].Err = "error: " + err.Error()
			}
		}()
		if results[i].Err == "" {
			results[i].Entries, results[i].ParseProblem = verifEntries(buf.Bytes())
		} else if buf.Len() > 0 {
			results[i].ParseProblem = "output written although the program reports an error"
		}
		if err := validateGTLDs(c.Entries); err != nil {
			results[i].ValidateErr = err.Error()
		}
		results[i].Delegated = len(delegatedGTLDs(c.Entries))
	}
	b, _ := json.Marshal(results)
	os.Stdout.Write(b)
	os.Exit(0)
}
