//go:build verif

package lint

// Accessors injected with `go build -tags verif -overlay` by /verif. Add-only; never part of /repo.

// VerifRegistry is a fresh private registry whose unexported register* methods are reachable.
type VerifRegistry struct{ R *registryImpl }

func VerifNewRegistry() *VerifRegistry { return &VerifRegistry{R: NewRegistry()} }

func (v *VerifRegistry) RegisterCertificate(l *CertificateLint) error {
	return v.R.registerCertificateLint(l)
}
func (v *VerifRegistry) RegisterRevocationList(l *RevocationListLint) error {
	return v.R.registerRevocationListLint(l)
}
func (v *VerifRegistry) RegisterOcspResponse(l *OcspResponseLint) error {
	return v.R.registerOcspResponseLint(l)
}
func (v *VerifRegistry) RegisterLegacy(l *Lint) error { return v.R.register(l) }
func (v *VerifRegistry) Registry() Registry         { return v.R }

// VerifTables dumps the redundant lookup tables of one kind: registration order, sorted names,
// byName keys, bySource (source -> names in order), sources set.
type VerifTables struct {
	Order    []string
	Names    []string
	ByName   map[string]string // key -> Name field of the stored lint
	BySource map[string][]string
	Sources  []string
}

func VerifDump(r Registry) map[string]VerifTables {
	impl, ok := r.(*registryImpl)
	if !ok {
		return nil
	}
	out := map[string]VerifTables{}
	{
		t := VerifTables{ByName: map[string]string{}, BySource: map[string][]string{}}
		for _, l := range impl.certificateLints.lints {
			t.Order = append(t.Order, l.Name)
		}
		t.Names = append(t.Names, impl.certificateLints.lintNames...)
		for k, l := range impl.certificateLints.lintsByName {
			t.ByName[k] = l.Name
		}
		for s, ls := range impl.certificateLints.lintsBySource {
			for _, l := range ls {
				t.BySource[string(s)] = append(t.BySource[string(s)], l.Name)
			}
		}
		for s := range impl.certificateLints.sources {
			t.Sources = append(t.Sources, string(s))
		}
		out["cert"] = t
	}
	{
		t := VerifTables{ByName: map[string]string{}, BySource: map[string][]string{}}
		for _, l := range impl.revocationListLints.lints {
			t.Order = append(t.Order, l.Name)
		}
		t.Names = append(t.Names, impl.revocationListLints.lintNames...)
		for k, l := range impl.revocationListLints.lintsByName {
			t.ByName[k] = l.Name
		}
		for s, ls := range impl.revocationListLints.lintsBySource {
			for _, l := range ls {
				t.BySource[string(s)] = append(t.BySource[string(s)], l.Name)
			}
		}
		for s := range impl.revocationListLints.sources {
			t.Sources = append(t.Sources, string(s))
		}
		out["crl"] = t
	}
	{
		t := VerifTables{ByName: map[string]string{}, BySource: map[string][]string{}}
		for _, l := range impl.ocspResponseLints.lints {
			t.Order = append(t.Order, l.Name)
		}
		t.Names = append(t.Names, impl.ocspResponseLints.lintNames...)
		for k, l := range impl.ocspResponseLints.lintsByName {
			t.ByName[k] = l.Name
		}
		for s, ls := range impl.ocspResponseLints.lintsBySource {
			for _, l := range ls {
				t.BySource[string(s)] = append(t.BySource[string(s)], l.Name)
			}
		}
		for s := range impl.ocspResponseLints.sources {
			t.Sources = append(t.Sources, string(s))
		}
		out["ocsp"] = t
	}
	return out
}

// VerifCheckEffective exposes the window function itself.
var VerifCheckEffective = checkEffective

// VerifProfiles lists registered profiles.
func VerifProfiles() map[string]Profile { return profiles }
