//go:build verif

package rfc

import "github.com/zmap/zcrypto/x509"

// Accessor injected with `go build -tags verif -overlay` by /verif. Add-only; never part of /repo.

func VerifEKUTable() map[x509.ExtKeyUsage]map[x509.KeyUsage]bool { return eku }
