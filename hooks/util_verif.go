//go:build verif

package util

import (
	"math/big"
	"net"
)

// Accessors injected with `go build -tags verif -overlay` by /verif. Add-only; never part of /repo.

func VerifTLDMap() map[string]GTLDPeriod { return tldMap }

func VerifReservedNetworks() []*net.IPNet { return reservedNetworks }

func VerifPrimes() []*big.Int { return bigIntPrimes }
