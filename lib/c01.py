"""C01 - every lint run returns a complete, well-formed result set."""
import common

THEOREMS = ["c01_cert_total", "c01_plain_total", "c01_well_formed", "c01_status_range"]


def run(ctx):
    for t, r in common.standard_theorems(ctx, "Props.C01", THEOREMS):
        ctx.violation("theorem:" + t, "property theorem %s no longer checks: %s" % (t, r[:500]),
                      {"theorem_or_correspondence": "ZL.Props.C01." + t}, found_input=False)
    d = common.harness_json(["framework", "all", "monitor"])
    common.gendir("C01")
    mon = common.report_monitor_violations(ctx, d)
    ctx.oblige("direct monitor: real registry result sets are complete and well-formed on corpus and mutants", not mon)
    f1 = common.corr_stream(ctx, "all", d["cases"]["all"], common.SCRIPT_HEADER, "check_all", "Script.slint_all (mock registries through Lint*Ex)", shard=100)
    if not mon:
        common.report_disagreements(ctx, "all", f1, "Framework.Core.lint_all", [])
    ctx.cov["rule"] = ("all: random mock registries (0-6 scripted lints of one kind, incl. panicking/nil/out-of-range bodies, config errors) through "
                      "LintCertificateEx / LintRevocationListEx / LintOcspResponseEx vs Core.lint_all; monitor: the real registry (global and filtered) on corpus "
                      "objects, checking count, non-nil, status range, metadata, flags and version; distinct = outcome classes")
    st = d.get("stats") or {}
    ctx.add_eval(st.get("monitor_runs", 0) + st.get("mutants_linted", 0), traces=st.get("monitor_runs", 0) + st.get("mutants_linted", 0))
    ctx.notes["stats"] = st
