"""C01 - every lint run returns a complete, well-formed result set."""
import common

THEOREMS = ["c01_cert_total", "c01_plain_total", "c01_well_formed", "c01_status_range"]


def run(ctx):
    for t, r in common.standard_theorems(ctx, "Props.C01", THEOREMS):
        ctx.violation("theorem:" + t, "property theorem %s no longer checks: %s" % (t, r[:500]),
                      {"theorem_or_correspondence": "ZL.Props.C01." + t}, found_input=False)
    d = common.harness_json(["framework", "all", "monitor"])
    common.gendir("C01")
    mon = common.report_monitor_violations(ctx, d)
    ctx.oblige("direct monitor: real registry result sets are complete and well-formed on corpus and mutants", not mon)
    f1 = common.corr_stream(ctx, "all", d["cases"]["all"], common.SCRIPT_HEADER, "check_all", "Script.slint_all (mock registries through Lint*Ex)", shard=100)
    if not mon:
        common.report_disagreements(ctx, "all", f1, "Framework.Core.lint_all", [])
    # static: the hypothesis of c01_status_range (bodies return defined statuses only, never nil) for the lints of this tree
    sf = common.harness_json(["statusfacts"], timeout=900)["data"]["facts"]
    gd = common.gendir("C01")
    import os
    from common import cq_bytes, cq_list
    with open(os.path.join(gd, "Obl_C01_statuses.v"), "w") as f:
        f.write("From ZL Require Import Base.Bytes Framework.Core.\nFrom Coq Require Import ZArith List.\nImport ListNotations.\nOpen Scope Z_scope.\n")
        f.write("(* status constants that can flow into a result of each lint; lints with a status the translator could not resolve; lints that can return nil (go/ssa translator, regenerated) *)\n")
        f.write("Definition may_return : list (bytes * list Z) := [\n  " + ";\n  ".join(
            "(%s, [%s])" % (cq_bytes(x["Name"]), "; ".join(str(s) for s in (x["MayReturn"] or []))) for x in sf) + "\n].\n")
        f.write("Definition unresolved : list bytes := %s.\n" % cq_list([cq_bytes(x["Name"]) for x in sf if x["StatusUnknown"]]))
        f.write("Definition may_return_nil : list bytes := %s.\n" % cq_list([cq_bytes(x["Name"]) for x in sf if x["NilResult"]]))
        f.write("Lemma defined_all : forallb (fun f => forallb defined_status (snd f)) may_return = true.\nProof. vm_compute. reflexivity. Qed.\n")
        f.write("Lemma resolved_all : match unresolved with nil => true | _ => false end = true.\nProof. vm_compute. reflexivity. Qed.\n")
        f.write("Lemma never_nil : match may_return_nil with nil => true | _ => false end = true.\nProof. vm_compute. reflexivity. Qed.\n")
    ok, outp = common.coqc(os.path.join(gd, "Obl_C01_statuses.v"))
    ctx.oblige("Obl_C01_statuses: every status that can flow into a result of a lint of this tree is a constant and a defined status, and no Execute returns nil (%d lints)" % len(sf), ok, outp[-1200:])
    if not ok:
        for x in sf:
            bad = [s for s in (x["MayReturn"] or []) if s < 1 or s > 7]
            if bad or x["StatusUnknown"] or x["NilResult"]:
                ctx.violation("static-status:" + x["Name"], "lint %s: undefined status constants %s, non-constant status at %s, nil result at %s" % (x["Name"], bad, x["StatusUnknown"][:3], x["NilResult"][:3]),
                              {"theorem_or_correspondence": "Gen.Obl_C01_statuses", "lint": x["Name"]}, found_input=False)
    ctx.cov["rule"] = ("all: random mock registries (0-6 scripted lints of one kind, incl. panicking/nil/out-of-range bodies, config errors) through "
                      "LintCertificateEx / LintRevocationListEx / LintOcspResponseEx vs Core.lint_all; monitor: the real registry (global and filtered) on corpus "
                      "objects, checking count, non-nil, status range, metadata, flags and version; distinct = outcome classes")
    st = d.get("stats") or {}
    ctx.add_eval(st.get("monitor_runs", 0) + st.get("mutants_linted", 0), traces=st.get("monitor_runs", 0) + st.get("mutants_linted", 0))
    ctx.notes["stats"] = st
