"""C02 - no lint fails internally on any input the parser accepts."""
import common

THEOREMS = ["c02_fatal_origin", "c02_framework", "c02_plain", "c02_walker_safe", "c02_walker_unchecked_refuted"]


def run(ctx):
    for t, r in common.standard_theorems(ctx, "Props.C02", THEOREMS):
        ctx.violation("theorem:" + t, "property theorem %s no longer checks: %s" % (t, r[:500]),
                      {"theorem_or_correspondence": "ZL.Props.C02." + t}, found_input=False)
    d = common.harness_json(["c02"], timeout=3400)
    common.gendir("C02")
    mon = common.report_monitor_violations(ctx, d)
    ctx.oblige("dynamic: no result is a recovered-panic report and no panic escapes CRL/OCSP linting, over directed hostile contents, structure-aware mutants and the corpus", not mon)
    header = ("From ZL Require Import Base.Bytes Base.Corr Kernels.Walkers.\nFrom Coq Require Import ZArith.\nOpen Scope Z_scope.\n"
              "Definition chk (c : bytes * Z) : bool := explicit_text_lint true (fst c) =? snd c.\n")
    f = common.corr_stream(ctx, "walker", d["cases"].get("walker", []), header, "chk",
                           "Walkers.explicit_text_lint (bound-checked) vs w_ext_cert_policy_explicit_text_includes_control on UTF8String explicitText")
    if not mon:
        common.report_disagreements(ctx, "walker", f, "Kernels.Walkers.explicit_text_lint", [])
    st = d.get("stats", {})
    ctx.add_eval(st.get("linted", 0), distinct=len(d["data"].get("classes", {})), traces=st.get("linted", 0))
    ctx.cov["rule"] = ("directed generation (blind byte mutation finds nothing): every UTF8String explicitText up to length 2 (thorough: 3) over a 12-symbol alphabet of ASCII, control, "
                      "continuation and lead bytes plus longer random ones; hostile keyUsage/SCT/qcStatements/CDP/AIA/EKU/policies/nameConstraints/SAN/IAN/Tor contents; SAN/IAN names of "
                      "every kind incl. empty, one-label, onion and arpa shapes; structured subjects (every ordered pair of values of each repeated subject attribute - organizationIdentifier under all 18 scope profiles: TLS DV/OV/IV/EV, 12 S/MIME policies, code signing, sub-CA, e-mail EKU - plus random multi-attribute subjects with odd string types and multi-valued RDNs); corpus certificates with one structure-aware mutation inside an extension value (empty, truncate, retag, "
                      "duplicate, delete, lead-byte ending, short hostile content, reverse); mutated CRLs and OCSP responses; only what the parsers accept is linted; distinct = generator classes")
    ctx.notes["stats"] = st
    ctx.notes["classes"] = d["data"].get("classes")
    ctx.notes["risk_sites_in_lint_closures"] = d["data"].get("risk_sites_total")
    ctx.partial = ("theorem-backed: fatal results arise only from the body, a configuration error or a recovered panic, and CRL/OCSP linting returns iff nothing panics (framework); the "
                   "explicitText walker, modelled with explicit out-of-range outcomes, never panics (and the unchecked variant does on [0xC2]). Explored: every other rule body - the ~375 "
                   "bodies of Go have no Coq semantics here - by directed hostile inputs and structure-aware mutation through the three entry points.")
