"""C02 - no lint fails internally on any input the parser accepts."""
import json
import os

import common
from common import cq_bytes, cq_list

THEOREMS = ["c02_fatal_origin", "c02_framework", "c02_plain", "c02_walker_safe", "c02_walker_unchecked_refuted",
            "c02_gentime_safe", "c02_gentime_guard_needed", "c02_bodies_total", "c02_gentime_range", "c02_dn_printable", "c02_crl_lints_range", "c02_crl_entry_order", "c02_qc_assert_safe", "c02_qc_guard_needed", "c02_arpa_indexing_safe", "c02_dsa_lints_total", "c02_dsa_subgroup_spec", "c02_dsa_p_one_decided", "c02_der_read_consumes", "c02_der_walker_total", "c02_ca_ku_gated"]

BODIES_HEADER = """From ZL Require Import Base.Bytes Base.Corr Kernels.Bodies Kernels.Crl Kernels.QcStatem Kernels.Dsa Kernels.Validity.
From Coq Require Import ZArith.
Open Scope Z_scope.
Definition oz (x : out Z) : Z := match x with Val s => s | OOR => -1 end.
Definition chk_gentime (c : (Z * bytes) * (Z * bytes) * (Z * Z * Z)) : bool :=
  match c with (d1, d2, (a, b, z)) => (oz (gen_seconds d1 d2) =? a) && (oz (gen_fraction d1 d2) =? b) && (oz (gen_not_zulu d1 d2) =? z) end.
Definition chk_ku (c : bytes * (Z * Z * Z)) : bool :=
  match c with (ku, (a, b, z)) => (oz (ku_incorrect_encoding ku) =? a) && (oz (ku_superfluous ku) =? b) && (oz (ku_incorrect_length ku) =? z) end.
Definition chk_sct (c : bytes * Z) : bool := oz (sct_list (fst c)) =? snd c.
Definition ob_eq (x : out bytes) (o : option bytes) : bool :=
  match x, o with Val r, Some v => beqb r v | OOR, None => true | _, _ => false end.
Definition chk_host (c : bytes * option bytes) : bool := ob_eq (get_host (fst c)) (snd c).
Definition chk_authority (c : bool * bool * bytes * option bytes) : bool :=
  match c with (ok, opq, u, o) => ob_eq (get_authority ok opq u) o end.
Fixpoint lz_eqb (a b : list Z) : bool :=
  match a, b with [] , [] => true | x :: a', y :: b' => (x =? y) && lz_eqb a' b' | _, _ => false end.
Fixpoint zl_ok (m o : list Z) : bool := match m, o with [], [] => true | x :: m', y :: o' => ((y =? -9) || (x =? y)) && zl_ok m' o' | _, _ => false end.
Definition chk_crl (c : crl_view * list Z) : bool := zl_ok (all_crl_lints (fst c)) (snd c).
Definition chk_ocsp (c : Z * Z * Z) : bool := match c with (t, p, s) => o_this_update_not_after_produced_at t p =? s end.
Definition chk_dnprint (c : list bytes * Z) : bool := oz (dn_not_printable (fst c)) =? snd c.
Definition okind_eqb (a b : option qkind) : bool := match a, b with Some x, Some y => qkind_eqb x y | None, None => true | _, _ => false end.
Definition chk_qc (c : option (list item) * qkind * result) : bool :=
  match c with (outer, sought, o) => let r := parse_qc outer sought in
    okind_eqb (r_dyn r) (r_dyn o) && Bool.eqb (r_present r) (r_present o) && Bool.eqb (r_noerr r) (r_noerr o) end.
Definition zlist_eqb (a b : list Z) : bool := (Nat.eqb (length a) (length b)) && forallb (fun p => Z.eqb (fst p) (snd p)) (combine a b).
Definition chk_dsa (c : Z * Z * Z * Z * bool * list Z) : bool :=
  match c with (p, q, g, y, with_exp, obs) =>
    let k := mkDsa p q g y in
    if with_exp then zlist_eqb (all_dsa_lints k) obs
    else zlist_eqb (l_unique_rep k :: l_size k :: l_short k :: nil) (tl obs)
  end.
Definition chk_validity (c : Z * Z * list Z) : bool := match c with (nb, na, obs) => zlist_eqb (all_validity_lints nb na) obs end.
Definition chk_bmp (c : bytes * option (option (list Z))) : bool :=
  match parse_bmp (fst c), snd c with
  | OOR, None => true
  | Val None, Some None => true
  | Val (Some us), Some (Some vs) => lz_eqb us vs
  | _, _ => false
  end.
"""

BODY_STREAMS = [
    ("gentime", "chk_gentime", "Bodies.gen_seconds/gen_fraction/gen_not_zulu vs the three e_generalized_time_* lints on crafted validity fields"),
    ("ku", "chk_ku", "Bodies.ku_incorrect_encoding/ku_superfluous/ku_incorrect_length vs the three keyUsage encoding lints on raw extension values"),
    ("sct", "chk_sct", "Bodies.sct_list vs e_empty_sct_list on decoded OCTET STRINGs"),
    ("host", "chk_host", "Bodies.get_host vs util.GetHost"),
    ("authority", "chk_authority", "Bodies.get_authority vs util.GetAuthority (net/url's verdict as input)"),
    ("dsa", "chk_dsa", "Dsa.all_dsa_lints vs the four DSA key lints (direct Execute; subgroup exponentiation inside the assistant below a size budget)"),
    ("validity", "chk_validity", "Validity.all_validity_lints (six validity-period lints; time.AddDate as Calendar.add_date) vs the real lint bodies on (notBefore, notAfter) pairs at and around every limit"),
    ("bmp", "chk_bmp", "Bodies.parse_bmp vs util.ParseBMPString (code units)"),
    ("crl", "chk_crl", "Crl.all_crl_lints (eight revocation-list lints, modelled in full) vs the real lints on corpus, re-dated and generated CRLs under both configurations"),
    ("ocsp", "chk_ocsp", "Crl.o_this_update_not_after_produced_at vs e_this_update_not_after_produced_at on corpus and generated responses"),
    ("qc", "chk_qc", "QcStatem.parse_qc vs util.ParseQcStatem (dynamic type, IsPresent, error text empty) on generated qcStatements values, every statement kind sought"),
    ("dnprint", "chk_dnprint", "Bodies.dn_not_printable vs e_subject_dn_not_printable_characters on the attribute values of zoo and crafted subjects"),
]


def load_audit():
    aud = {}
    for ln in open(os.path.join(common.VERIF, "panic_audit.txt")):
        ln = ln.rstrip("\n")
        if not ln or ln.startswith("#"):
            continue
        parts = ln.split(" :: ")
        if len(parts) == 3:
            aud[parts[0]] = (parts[1], parts[2])
    return aud


def panic_site_obligation(ctx, dynamic_failure_found):
    """Translator: the places of the lint tree that can still panic (bounds checks the compiler could not prove away,
    unchecked type assertions, explicit panics, integer division by a variable) are regenerated from the source and must
    all be accounted for in panic_audit.txt; the kernel checks the inclusion."""
    d = common.harness_json(["panicsites"], timeout=1800, env={"VERIF_BCE_CACHE": os.path.join(common.BUILD, "cache-bce")})["data"]
    aud = load_audit()
    residual, problems = [], []
    for r in d["bounds"]:
        residual.append(r["key"])
        a = aud.get(r["key"])
        if a and a[0] == "unreachable-from-lints" and r.get("in_lint_closure"):
            problems.append((r["key"], "audited as unreachable from lints, but the function is now inside a lint's closure (%s:%d)" % (r["file"], r["line"])))
    for r in d["other"]:
        residual.append(r["key"])
    gd = common.gendir("C02")
    p = os.path.join(gd, "Obl_C02_panic_sites.v")
    reach_bad = [k for k, _ in problems]
    with open(p, "w") as f:
        f.write("From ZL Require Import Base.Bytes.\nFrom Coq Require Import List Bool.\nImport ListNotations.\n")
        f.write("(* residual panic sites of v3/lint, v3/lints, v3/util regenerated from the source (compiler bounds-check report + go/ssa), and the audited ones *)\n")
        f.write("Definition residual : list bytes := %s.\n" % cq_list([cq_bytes(k) for k in residual]))
        f.write("Definition audited : list bytes := %s.\n" % cq_list([cq_bytes(k) for k in sorted(aud)]))
        f.write("Definition reachable_but_audited_unreachable : list bytes := %s.\n" % cq_list([cq_bytes(k) for k in reach_bad]))
        f.write("Lemma every_site_audited : forallb (fun k => mem k audited) residual = true.\nProof. vm_compute. reflexivity. Qed.\n")
        f.write("Lemma unreachable_still_unreachable : match reachable_but_audited_unreachable with nil => true | _ => false end = true.\nProof. vm_compute. reflexivity. Qed.\n")
    ok, outp = common.coqc(p)
    classes = {}
    for k in residual:
        c = aud.get(k, ("UNAUDITED", ""))[0]
        classes[c] = classes.get(c, 0) + 1
    ctx.oblige("Obl_C02_panic_sites: each of the %d places where the lint tree can still panic by indexing / slicing (compiler report) or by an unchecked type assertion, explicit panic or "
               "integer division (go/ssa) is accounted for in panic_audit.txt %s" % (len(residual), json.dumps(classes, sort_keys=True)), ok, outp[-1200:])
    ctx.notes["panic_sites"] = {"residual": len(residual), "by_class": classes, "stale_audit_entries": sorted(set(aud) - set(residual))[:20]}
    if not ok:
        for r in d["bounds"] + d["other"]:
            if r["key"] not in aud:
                where = "%s:%s" % (r.get("file", ""), r.get("line", "")) if "file" in r else "lints %s" % r.get("lints")
                ctx.violation("panic-site-unaudited:" + r["key"], "a place where the lint tree can panic is not accounted for: %s (%s); no panicking input was found by the sweeps" % (r["key"], where),
                              {"theorem_or_correspondence": "Gen.Obl_C02_panic_sites.every_site_audited", "site": r}, found_input=False)
        for k, why in problems:
            ctx.violation("panic-site-reachable:" + k, why, {"theorem_or_correspondence": "Gen.Obl_C02_panic_sites.unreachable_still_unreachable"}, found_input=False)


def run(ctx):
    for t, r in common.standard_theorems(ctx, "Props.C02", THEOREMS):
        ctx.violation("theorem:" + t, "property theorem %s no longer checks: %s" % (t, r[:500]),
                      {"theorem_or_correspondence": "ZL.Props.C02." + t}, found_input=False)
    d = common.harness_json(["c02"], timeout=3400)
    common.gendir("C02")
    mon = common.report_monitor_violations(ctx, d)
    ctx.oblige("dynamic: no result is a recovered-panic report and no panic escapes CRL/OCSP linting, over directed hostile contents, structure-aware mutants and the corpus", not mon)
    header = ("From ZL Require Import Base.Bytes Base.Corr Kernels.Walkers.\nFrom Coq Require Import ZArith.\nOpen Scope Z_scope.\n"
              "Definition chk (c : bytes * Z) : bool := explicit_text_lint true (fst c) =? snd c.\n")
    f = common.corr_stream(ctx, "walker", d["cases"].get("walker", []), header, "chk",
                           "Walkers.explicit_text_lint (bound-checked) vs w_ext_cert_policy_explicit_text_includes_control on UTF8String explicitText")
    if not mon:
        common.report_disagreements(ctx, "walker", f, "Kernels.Walkers.explicit_text_lint", [])
    # rule bodies with explicit indexing (Kernels/Bodies.v) against the real lints / helpers on directly built inputs
    db = common.harness_json(["bodies"], timeout=1800)
    monb = common.report_monitor_violations(ctx, db)
    ctx.oblige("dynamic: every GeneralizedTime validity field the parser accepts has at least 5 octets (the guard of c02_gentime_safe) and the time-format lints do not panic on it", not monb)
    for name, fn, model in BODY_STREAMS:
        fb = common.corr_stream(ctx, name, db["cases"].get(name, []), BODIES_HEADER, fn, model, shard={"dsa": 2 if ctx.tier == "thorough" else 12}.get(name, 400))
        if name == "dsa":
            common.require_outcomes(ctx, "dsa", db["cases"].get("dsa", []), [{"3", "6"}] * 4)
        if name == "validity":
            common.require_outcomes(ctx, "validity", db["cases"].get("validity", []), [{"3", "6"}, {"3", "5"}] + [{"3", "6"}] * 4)
        if fb:
            common.report_disagreements(ctx, name, fb, "Kernels.Bodies (" + name + ")", [])
    ctx.notes["bodies_stats"] = db.get("stats", {})
    panic_site_obligation(ctx, mon or monb)
    st = d.get("stats", {})
    ctx.add_eval(st.get("linted", 0), distinct=len(d["data"].get("classes", {})), traces=st.get("linted", 0))
    ctx.cov["rule"] = ("directed generation (blind byte mutation finds nothing): every UTF8String explicitText up to length 2 (thorough: 3) over a 12-symbol alphabet of ASCII, control, "
                      "continuation and lead bytes plus longer random ones; hostile keyUsage/SCT/qcStatements/CDP/AIA/EKU/policies/nameConstraints/SAN/IAN/Tor contents; SAN/IAN names of "
                      "every kind incl. empty, one-label, onion and arpa shapes; structured subjects (every ordered pair of values of each repeated subject attribute - organizationIdentifier under all 18 scope profiles: TLS DV/OV/IV/EV, 12 S/MIME policies, code signing, sub-CA, e-mail EKU - plus random multi-attribute subjects with odd string types and multi-valued RDNs); corpus certificates with one structure-aware mutation inside an extension value (empty, truncate, retag, "
                      "duplicate, delete, lead-byte ending, short hostile content, reverse); mutated CRLs and OCSP responses; only what the parsers accept is linted; distinct = generator classes")
    ctx.notes["stats"] = st
    ctx.notes["classes"] = d["data"].get("classes")
    ctx.notes["risk_sites_in_lint_closures"] = d["data"].get("risk_sites_total")
    ctx.partial = ("theorem-backed: fatal results arise only from the body, a configuration error or a recovered panic, and CRL/OCSP linting returns iff nothing panics (framework); the "
                   "explicitText walker, modelled with explicit out-of-range outcomes, never panics (and the unchecked variant does on [0xC2]); the three GeneralizedTime lints, the three "
                   "keyUsage-encoding lints, the SCT-list lint, util.GetHost, util.GetAuthority and util.ParseBMPString are modelled the same way (Kernels/Bodies.v), proved never to index out "
                   "of range (the time lints under the parser's length guard, refuted without it) and compared with the real code on directly built inputs. Explored: every other rule "
                   "body - ~365 bodies of Go have no Coq semantics here - by directed hostile inputs and structure-aware mutation through the three entry points.")
