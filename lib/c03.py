"""C03 - no findings outside a rule's effective window."""
import common

THEOREMS = ["c03_window_exact", "c03_boundaries", "c03_silent_outside"]


def run(ctx):
    for t, r in common.standard_theorems(ctx, "Props.C03", THEOREMS):
        ctx.violation("theorem:" + t, "property theorem %s no longer checks: %s" % (t, r[:500]),
                      {"theorem_or_correspondence": "ZL.Props.C03." + t}, found_input=False)
    d = common.harness_json(["framework", "window", "product", "boundary"])
    common.gendir("C03")
    mon = common.report_monitor_violations(ctx, d)
    ctx.oblige("direct monitor: no finding and no body run outside the window (mock product + every lint at its own boundaries)", not mon)
    f1 = common.corr_stream(ctx, "window", d["cases"]["window"], common.SCRIPT_HEADER, "check_window", "Core.check_effective")
    for c in f1[:5]:
        e = c["desc"]
        ctx.violation("window-function:%s|%s|%s" % (e["eff"], e["ineff"], e["t"]),
                      "CheckEffective(eff=%s, ineff=%s, date=%s) = %s contradicts the half-open window" % (e["eff"], e["ineff"], e["t"], e["got"]),
                      {"input": e, "expected": (not e["got"]), "observed": e["got"], "theorem_or_correspondence": "c03_window_exact / correspondence check_effective"})
    f2 = common.corr_stream(ctx, "product", d["cases"]["product"], common.SCRIPT_HEADER, "check_run", "Script.srun (life cycle)")
    f3 = common.corr_stream(ctx, "boundary", d["cases"]["boundary"], common.SCRIPT_HEADER, "check_real", "Script.srun (real lints, re-dated objects)")
    if not mon:
        common.report_disagreements(ctx, "product", f2, "Framework.Core.run", [])
        common.report_disagreements(ctx, "boundary", f3, "Framework.Core.run", [])
    ctx.cov["rule"] = ("window: (effective, ineffective, date) triples over all distinct registry dates +-1s/+-1ns in three zones + random, vs Core.check_effective; "
                      "product: scripted mock lints of the three kinds over source x constructor x configuration x applicability x window position x body outcome; "
                      "boundary: every registered lint with a date on applicable corpus objects re-dated to date-1s, date, date+1s; distinct = distinct abstract outcome classes (tags)")
    ctx.notes["stats"] = d.get("stats")
    ctx.notes["data"] = d.get("data")
    ctx.cov["exhaustive"] = False
