"""C04 - out-of-scope or inapplicable objects get NA; otherwise the rule's verdict stands."""
import common

THEOREMS = ["c04_scope_gate", "c04_scope_def", "c04_inapplicable", "c04_verdict_stands", "c04_order"]


def run(ctx):
    for t, r in common.standard_theorems(ctx, "Props.C04", THEOREMS):
        ctx.violation("theorem:" + t, "property theorem %s no longer checks: %s" % (t, r[:500]),
                      {"theorem_or_correspondence": "ZL.Props.C04." + t}, found_input=False)
    d = common.harness_json(["framework", "product", "real", "scope"])
    common.gendir("C04")
    mon = common.report_monitor_violations(ctx, d)
    ctx.oblige("direct monitor: scope gate, inapplicability and verdict preservation on every observed run", not mon)
    f1 = common.corr_stream(ctx, "product", d["cases"]["product"], common.SCRIPT_HEADER, "check_run", "Script.srun incl. call log (mock lints)")
    f2 = common.corr_stream(ctx, "real", d["cases"]["real"], common.SCRIPT_HEADER, "check_real", "Script.srun fed with direct calls of the real lint's own methods")
    if "scope" in d["cases"]:
        f3 = common.corr_stream(ctx, "scope", d["cases"]["scope"],
                                "From ZL Require Import Base.Bytes Base.Corr Kernels.Scope.\nOpen Scope Z_scope.\n", "check_scope",
                                "Kernels.Scope (IsServerAuthCert / IsEmailProtectionCert / IsCodeSigning)")
        for c in f3[:5]:
            ctx.violation("scope-predicate:" + str(c["desc"].get("file", c["desc"].get("gen"))),
                          "scope predicate disagrees with the documented definition on %s" % c["desc"],
                          {"input": c["desc"], "theorem_or_correspondence": "Kernels.Scope"}, found_input=True)
    if not mon:
        common.report_disagreements(ctx, "product", f1, "Framework.Core.run", [])
        common.report_disagreements(ctx, "real", f2, "Framework.Core.run", [])
    ctx.cov["rule"] = ("product: scripted mock lints (3 kinds x 7 sources x constructor x 4 configuration outcomes x 3 applicability outcomes x 9 window "
                      "positions x 12 body outcomes x scope bits; sampled in quick, complete in thorough) with call log; real: every registered lint x corpus "
                      "objects, model fed with direct calls of CheckApplies/Execute/Configure; distinct = distinct outcome classes (kind/result/status/log length)")
    ctx.notes["stats"] = d.get("stats")
    ctx.cov["exhaustive"] = (ctx.tier == "thorough")
