"""C05 - linting is deterministic, history-independent, read-only and I/O-free."""
import os
import re
import common
from common import cq_bytes, cq_list

THEOREMS = ["c05_history_independent", "c05_repeat_same", "c05_ku_eku_table_order", "c05_ku_eku_order", "c05_ku_eku_two", "c05_crl_subscriber_limit", "c05_crl_ca_limit", "c05_civil_date", "c05_dsa_subgroup_residue", "c05_dsa_write_would_show", "c05_validity_825_days", "c05_validity_months", "c05_validity_398_397"]

# allow-lists that are part of the design (DESIGN.md 5/C05)
ALLOW_CALLS = [("w_sub_cert_aia_contains_internal_names", "time.Now"), ("w_smime_aia_contains_internal_names", "time.Now")]
# map iterations reviewed as order-insensitive (result sorted, or used as a set): "<file> in <function>"
ALLOW_MAPRANGE = ["util/ku.go in GetKeyUsageStrings",
                  "lints/rfc/lint_ext_duplicate_extension.go in Execute",
                  "lints/rfc/lint_key_usage_and_extended_key_usage_inconsistent.go in multiPurpose",
                  "lints/rfc/lint_ecdsa_ee_invalid_ku.go in Execute",
                  "lints/cabf_br/lint_ext_tor_service_descriptor_hash_invalid.go in Execute"]
ALLOW_IMPORTS = [("os", "github.com/zmap/zlint/v3/lint")]   # NewConfigFromFile only


def site_key(s):
    m = re.match(r"(\S+):\d+ in (\S+)", s)
    return "%s in %s" % (m.group(1), m.group(2)) if m else s


def run(ctx):
    for t, r in common.standard_theorems(ctx, "Props.C05", THEOREMS):
        ctx.violation("theorem:" + t, "property theorem %s no longer checks: %s" % (t, r[:500]),
                      {"theorem_or_correspondence": "ZL.Props.C05." + t}, found_input=False)
    d = common.harness_json(["c05"], timeout=3000)
    gd = common.gendir("C05")
    static = d["data"]["static"]
    calls, gw, ow, mr = [], [], [], []
    for s in static:
        for c in s["Forbidden"] or []:
            calls.append((s["Name"], c))
        for x in s["GlobalWrites"] or []:
            gw.append("%s %s" % (s["Name"], x))
        for x in s["ObjectWrites"] or []:
            ow.append("%s %s" % (s["Name"], x))
        for x in s["MapRange"] or []:
            mr.append((s["Name"], site_key(x)))
    imports = [(r["import"], b) for r in d["data"]["risky_imports"] for b in r["by"]]
    with open(os.path.join(gd, "StaticFactsC05.v"), "w") as f:
        f.write("From ZL Require Import Base.Bytes Base.BytesFacts.\n")
        f.write("Definition pair_in (p : bytes * bytes) (l : list (bytes * bytes)) : bool := existsb (fun q => beqb (fst p) (fst q) && beqb (snd p) (snd q)) l.\n")
        pl = lambda l: cq_list(["(%s, %s)" % (cq_bytes(a), cq_bytes(b)) for a, b in l])
        f.write("Definition io_calls : list (bytes * bytes) := %s.\nDefinition allow_calls : list (bytes * bytes) := %s.\n" % (pl(calls), pl(ALLOW_CALLS)))
        f.write("Definition global_writes : list bytes := %s.\nDefinition object_writes : list bytes := %s.\n" % (cq_list([cq_bytes(x) for x in gw]), cq_list([cq_bytes(x) for x in ow])))
        f.write("Definition map_ranges : list bytes := %s.\nDefinition allow_map_ranges : list bytes := %s.\n" % (
            cq_list([cq_bytes(k) for _, k in mr]), cq_list([cq_bytes(k) for k in ALLOW_MAPRANGE])))
        f.write("Definition risky_imports : list (bytes * bytes) := %s.\nDefinition allow_imports : list (bytes * bytes) := %s.\n" % (pl(imports), pl(ALLOW_IMPORTS)))
    ok, out = common.coqc(os.path.join(gd, "StaticFactsC05.v"))
    if not ok:
        raise common.BuildBroken("StaticFactsC05.v does not compile: " + out[-1500:])
    pre = "From ZL Require Import Base.Bytes Base.BytesFacts.\nFrom Gen Require Import StaticFactsC05.\n"
    obls = {
        "io": ("no lint reaches time, file-system, network, process, environment or randomness functions, except time.Now in the two AIA internal-name lints; the library imports none of the I/O packages (os only in package lint)",
               "Lemma io_ok : forallb (fun p => pair_in p allow_calls) io_calls = true.\nProof. vm_compute. reflexivity. Qed.\n"
               "Lemma imports_ok : forallb (fun p => pair_in p allow_imports) risky_imports = true.\nProof. vm_compute. reflexivity. Qed.\n"),
        "frame": ("no lint writes package-level state or the linted object (frame condition, static half)",
                  "Lemma no_global_writes : match global_writes with nil => true | _ => false end = true.\nProof. vm_compute. reflexivity. Qed.\n"
                  "Lemma no_object_writes : match object_writes with nil => true | _ => false end = true.\nProof. vm_compute. reflexivity. Qed.\n"),
        "maporder": ("every iteration over a Go map in a lint is one reviewed as order-insensitive",
                     "Lemma map_ranges_ok : forallb (fun s => mem s allow_map_ranges) map_ranges = true.\nProof. vm_compute. reflexivity. Qed.\n"),
    }
    paths = []
    for k, (what, body) in obls.items():
        p = os.path.join(gd, "Obl_C05_%s.v" % k)
        with open(p, "w") as f:
            f.write(pre + "(* " + what + " *)\n" + body)
        paths.append((k, what, p))
    res = common.coqc_many([p for _, _, p in paths])
    failed = {}
    for (k, what, p), (ok, out) in zip(paths, res):
        ctx.oblige("Obl_C05_%s: %s" % (k, what), ok, out[-1200:])
        if not ok:
            failed[k] = out
    mon = common.report_monitor_violations(ctx, d)
    # the KU/EKU consistency lint against its full model; the table is the one of the running build
    kheader = ("From ZL Require Import Base.Corr Kernels.KuEku.\nFrom Coq Require Import ZArith List.\nImport ListNotations.\nOpen Scope Z_scope.\n"
               "Definition tbl : table := %s.\n"
               "Definition chkk (c : list Z * Z * Z) : bool := match c with (ekus, ku, st) => ku_eku_lint tbl ekus ku =? st end.\n" % d["data"]["ku_eku_table_coq"])
    fk = common.corr_stream(ctx, "kueku", d["cases"].get("kueku", []), kheader, "chkk",
                            "KuEku.ku_eku_lint (table dumped from the build) vs e_key_usage_and_extended_key_usage_inconsistent on the zoo's key-usage x extended-key-usage population")
    if not mon:
        common.report_disagreements(ctx, "kueku", fk, "Kernels.KuEku.ku_eku_lint", [])
    ctx.oblige("dynamic: 12 repetitions per object give identical status and details; the same call alone and after random histories agrees; exported fields of the linted object unchanged", not mon)
    # static failures without a dynamic witness
    monkeys = " ".join(v["key"] for v in mon)
    if "io" in failed:
        for a, b in calls:
            if (a, b) not in ALLOW_CALLS:
                ctx.violation("io-call:%s:%s" % (a, b), "lint %s reaches %s" % (a, b), {"theorem_or_correspondence": "Gen.Obl_C05_io", "lint": a, "callee": b,
                              "note": "the call site is the evidence; use ./check C05 thorough for the syscall audit"}, found_input=False)
        for a, b in imports:
            if (a, b) not in ALLOW_IMPORTS:
                ctx.violation("import:%s:%s" % (b, a), "package %s imports %s" % (b, a), {"theorem_or_correspondence": "Gen.Obl_C05_io"}, found_input=False)
    if "frame" in failed:
        for x in gw:
            ctx.violation("global-write:" + x.split(" ")[0], "a lint writes package-level state: " + x, {"theorem_or_correspondence": "Gen.Obl_C05_frame"}, found_input=False)
        for x in ow:
            if "object-mutated" not in monkeys:
                ctx.violation("object-write:" + x.split(" ")[0], "a lint writes into the linted object: " + x, {"theorem_or_correspondence": "Gen.Obl_C05_frame"}, found_input=False)
    if "maporder" in failed:
        for a, k in mr:
            if k not in ALLOW_MAPRANGE and a not in monkeys:
                ctx.violation("map-order:%s:%s" % (a, k), "lint %s iterates over a map at %s, which is not among the reviewed order-insensitive sites; repetition found no differing output" % (a, k),
                              {"theorem_or_correspondence": "Gen.Obl_C05_maporder"}, found_input=False)
    st = d.get("stats", {})
    ctx.add_eval(st.get("repetition_runs", 0) + st.get("histories", 0) + st.get("readonly_runs", 0), distinct=st.get("readonly_runs", 0), traces=st.get("repetition_runs", 0))
    ctx.cov["rule"] = ("corpus certificates plus generated certificates aimed at map-order sites (multi-EKU/odd-KU, several duplicated extensions), each linted 12 times; the same call "
                      "alone vs after random histories (other objects, filtered registries, SetConfiguration toggles, CRLs); each DER parsed twice and one copy linted, exported fields "
                      "compared; static facts over all lints; distinct = distinct objects")
    ctx.notes["stats"] = st
    ctx.notes["static"] = {"io_calls": calls, "map_ranges": mr, "imports": imports, "lints_analysed": d["data"]["lints_analysed"]}
    for s in d.get("samples") or []:
        ctx.sample(s)
    ctx.partial = ("theorem-backed: history independence and repeatability for every call sequence follow from the frame condition (c05_history_independent); kernel-checked each run: the "
                   "regenerated static facts (I/O callees, imports, writes to globals/object, map iterations) stay inside the design's allow-lists. Explored/trusted: that those facts imply "
                   "the frame condition for each body (the SSA analysis is a heuristic over-approximation), backed by repetition, random histories and object comparison.")
    if ctx.tier == "thorough":
        strace_audit(ctx)


def strace_audit(ctx):
    """syscall audit of a lint loop between markers (thorough)"""
    rc, so, se = common.sh("which strace")
    if rc != 0:
        ctx.notes["strace"] = "strace not available"
        return
    trace = os.path.join(common.BUILD, "c05.strace")
    rc, so, se = common.sh(["strace", "-f", "-o", trace, "-e", "trace=network,process,openat,open,creat,unlink,rename,execve", common.HARNESS, "c05audit"],
                           env=dict(common.GOENV, VERIF_REPO=common.REPO), timeout=1200)
    if rc != 0 or not os.path.exists(trace):
        ctx.notes["strace"] = "strace run failed: " + se[-300:]
        return
    lines = open(trace, errors="replace").read().splitlines()
    inside, bad = False, []
    for ln in lines:
        if "VERIF-LINT-BEGIN" in ln:
            inside = True
            continue
        if "VERIF-LINT-END" in ln:
            inside = False
            continue
        if inside and re.search(r"\b(socket|connect|openat|open|creat|execve|fork|vfork|clone3?|unlink|rename)\(", ln) and "CLONE_THREAD" not in ln:
            bad.append(ln[:200])
    ctx.oblige("strace: no socket/connect/open/exec/fork system call between the lint-loop markers", not bad, "\n".join(bad[:10]))
    ctx.notes["strace_lines_in_window"] = sum(1 for _ in lines)
    for b in bad[:3]:
        ctx.violation("syscall:" + b.split("(")[0].split()[-1], "linting performed a system call: " + b, {"trace": bad[:20]})
    os.unlink(trace)
