"""C06 - severity matches the lint's name."""
import os
import common
from common import cq_bytes, cq_list

THEOREMS = ["c06_framework", "c06_meta", "c06_static"]
LABEL = {0: "reserved", 1: "NA", 2: "NE", 3: "pass", 4: "info", 5: "warn", 6: "error", 7: "fatal"}
CODE = {v: k for k, v in LABEL.items()}


def allowed(name, s):
    if len(name) < 3 or name[1] != "_":
        return False
    return {"e": s not in (5, 4), "w": s not in (6, 4), "n": s not in (5, 6)}.get(name[0], False)


def run(ctx):
    for t, r in common.standard_theorems(ctx, "Props.C06", THEOREMS):
        ctx.violation("theorem:" + t, "property theorem %s no longer checks: %s" % (t, r[:500]),
                      {"theorem_or_correspondence": "ZL.Props.C06." + t}, found_input=False)
    d = common.harness_json(["c06"], timeout=1800)
    gd = common.gendir("C06")
    facts = d["data"]["facts"]
    observed = {o["name"]: o["statuses"] for o in d["data"]["observed"]}
    known = []
    for (pid, key), what in ctx.known.items():
        if pid == "C06" and ":" in key:
            n, lab = key.rsplit(":", 1)
            if lab in CODE:
                known.append((n, CODE[lab]))
    with open(os.path.join(gd, "StaticFacts.v"), "w") as f:
        f.write("From ZL Require Import Base.Bytes.\nFrom Coq Require Import ZArith List.\nImport ListNotations.\nOpen Scope Z_scope.\n")
        f.write("(* status constants that can flow into a LintResult of each lint (SSA translator, regenerated) *)\n")
        f.write("Definition may_return : list (bytes * list Z) := [\n  " + ";\n  ".join(
            "(%s, [%s])" % (cq_bytes(x["Name"]), "; ".join(str(s) for s in (x["MayReturn"] or []))) for x in facts) + "\n].\n")
        f.write("Definition known_c06 : list (bytes * Z) := %s.\n" % cq_list(["(%s, %d)" % (cq_bytes(n), s) for n, s in known]))
        f.write("Definition unresolved : list bytes := %s.\n" % cq_list([cq_bytes(x["Name"]) for x in facts if x["StatusUnknown"]]))
    ok, out = common.coqc(os.path.join(gd, "StaticFacts.v"))
    if not ok:
        raise common.BuildBroken("StaticFacts.v does not compile: " + out[-1500:])
    pre = "From ZL Require Import Base.Bytes Framework.Core Framework.DataChecks Framework.SeverityFacts Props.C06.\nFrom Gen Require Import StaticFacts.\nFrom Coq Require Import ZArith List.\nOpen Scope Z_scope.\n"
    obls = {
        "prefix": ("every lint name carries exactly one of the prefixes e_ w_ n_", "Lemma prefix_all : forallb (fun f => prefix_ok (fst f)) may_return = true.\nProof. vm_compute. reflexivity. Qed.\n"),
        "static": ("every status constant that can flow into a result is permitted by the lint's prefix, or is a listed known finding",
                   "Lemma static_all : static_ok may_return known_c06 = true.\nProof. vm_compute. reflexivity. Qed.\n"
                   "Theorem every_status_permitted : forall name sts s, In (name, sts) may_return -> In s sts -> allowed name s = true \\/ in_known (name, s) known_c06 = true.\n"
                   "Proof. exact (fun name sts s => c06_static may_return known_c06 name sts s static_all). Qed.\n"),
        "resolved": ("the translator resolved every status flowing into a result to constants, all of them defined statuses",
                     "Lemma resolved_all : match unresolved with nil => true | _ => false end = true.\nProof. vm_compute. reflexivity. Qed.\n"
                     "Lemma defined_all : forallb (fun f => forallb defined_status (snd f)) may_return = true.\nProof. vm_compute. reflexivity. Qed.\n"),
    }
    paths = []
    for k, (what, body) in obls.items():
        p = os.path.join(gd, "Obl_C06_%s.v" % k)
        with open(p, "w") as f:
            f.write(pre + "(* " + what + " *)\n" + body)
        paths.append((k, what, p))
    res = common.coqc_many([p for _, _, p in paths])
    failed = {}
    for (k, what, p), (ok, out) in zip(paths, res):
        ctx.oblige("Obl_C06_%s: %s" % (k, what), ok, out[-1200:])
        if not ok:
            failed[k] = out
    # static findings: (lint, status) pairs the prefix does not permit
    for x in facts:
        for s in x["MayReturn"] or []:
            if not allowed(x["Name"], s):
                key = "%s:%s" % (x["Name"], LABEL.get(s, str(s)))
                seen = s in observed.get(x["Name"], [])
                ctx.violation(key, "lint %s can report %r (status constant reachable from its Execute%s)" % (
                    x["Name"], LABEL.get(s, s), "; observed on the corpus" if seen else "; no input producing it found"),
                    {"lint": x["Name"], "status": LABEL.get(s, s), "type": x["TypeName"], "theorem_or_correspondence": "Gen.Obl_C06_static.static_all"},
                    found_input=seen)
        if x["StatusUnknown"]:
            ctx.violation("unresolved:" + x["Name"], "a non-constant status flows into a result of %s at %s" % (x["Name"], x["StatusUnknown"][:3]),
                          {"theorem_or_correspondence": "Gen.Obl_C06_resolved"}, found_input=False)
        for s in x["MayReturn"] or []:
            if s < 1 or s > 7:
                ctx.violation("undefined-status:%s:%d" % (x["Name"], s), "lint %s can report the undefined status %d" % (x["Name"], s), {"lint": x["Name"]}, found_input=False)
    for n in [x["Name"] for x in facts if len(x["Name"]) < 3 or x["Name"][:2] not in ("e_", "w_", "n_")]:
        ctx.violation("prefix:" + n, "lint name %r lacks an e_/w_/n_ prefix" % n, {"input": n})
    mon = common.report_monitor_violations(ctx, d)
    ctx.oblige("observation: every status returned on the corpus lies in the lint's static status set (soundness of the facts); no unlisted naming violation observed",
               not [v for v in mon if (ctx.pid, v["key"]) not in ctx.known])
    st = d.get("stats", {})
    ctx.add_eval(st.get("lint_results_observed", 0) + st.get("configured_results_observed", 0) + st.get("date_sweep_runs", 0), distinct=sum(len(v) for v in observed.values()), traces=st.get("lint_results_observed", 0))
    ctx.cov["rule"] = ("static: for each of the registered lints the closure of module-internal functions reachable from constructor/Configure/CheckApplies/Execute is scanned for "
                      "stores into LintResult.Status (constants resolved through phi nodes and status cells); dynamic: every lint on every corpus and zoo certificate, CRL and OCSP response, again under user configurations (options changed, unknown / misspelt keys, sections for lints without options), and re-dated to every registry date; "
                      "distinct = distinct (lint, observed status) pairs")
    ctx.notes["static_pairs"] = sum(len(x["MayReturn"] or []) for x in facts)
    ctx.notes["lints"] = len(facts)
    ctx.sample({"lint": facts[0]["Name"], "may_return": facts[0]["MayReturn"], "observed": observed.get(facts[0]["Name"])})
    ctx.partial = ("theorem-backed: the framework adds only NA/NE/fatal and a lint whose body statuses are all permitted never violates the contract (c06_meta); kernel-checked: the static "
                   "status sets regenerated each run satisfy the naming rule modulo listed findings. Trusted, not proved: that the SSA translator over-approximates every return path "
                   "(validated each run against all observed statuses).")
