"""C07 - a lint's verdict does not depend on which other lints run."""
import common

THEOREMS = ["c07_sublist_independent", "c07_filter_independent"]


def run(ctx):
    for t, r in common.standard_theorems(ctx, "Props.C07", THEOREMS):
        ctx.violation("theorem:" + t, "property theorem %s no longer checks: %s" % (t, r[:500]),
                      {"theorem_or_correspondence": "ZL.Props.C07." + t}, found_input=False)
    d = common.harness_json(["c07"])
    common.gendir("C07")
    mon = common.report_monitor_violations(ctx, d)
    ctx.oblige("direct monitor: filtered run = full run restricted (status and details), nothing for unselected lints, flags monotone", not mon)
    f = common.corr_stream(ctx, "filtered", d["cases"]["filtered"], common.SCRIPT_HEADER, "check_filtered",
                           "filter_registry + lint_all on scripted registries (filtered runs)", shard=60)
    if not mon:
        common.report_disagreements(ctx, "filtered", f, "Framework (filter_registry; lint_all)", [])
    st = d.get("stats", {})
    ctx.add_eval(st.get("filtered_runs", 0), distinct=st.get("filters", 0), traces=st.get("filtered_runs", 0))
    ctx.cov["rule"] = ("real registry: random FilterOptions and singleton registries x corpus certificates, CRLs and OCSP responses, filtered run compared with the full "
                      "run lint by lint (lints whose own output is not reproducible on an object - C05's subject - are skipped and counted); scripted registries of "
                      "every kind, filtered, vs the Coq model; distinct = distinct filters + outcome classes")
    ctx.notes["stats"] = st
    for s in d.get("samples") or []:
        ctx.sample(s)
