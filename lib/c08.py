"""C08 - filtering selects exactly the documented set."""
import common

THEOREMS = ["c08_selected_def", "c08_exact", "c08_outcome", "c08_first_unknown"]


def run(ctx):
    for t, r in common.standard_theorems(ctx, "Props.C08", THEOREMS):
        ctx.violation("theorem:" + t, "property theorem %s no longer checks: %s" % (t, r[:500]),
                      {"theorem_or_correspondence": "ZL.Props.C08." + t}, found_input=False)
    d = common.harness_json(["c08"])
    gd = common.gendir("C08")
    common.write_registry_data(gd, d["data"]["entries_coq"])
    mon = common.report_monitor_violations(ctx, d)
    ctx.oblige("direct monitor: documented selection, same lint values, inherited configuration, unchanged source registry, error conditions", not mon)
    header = ("From ZL Require Import Base.Bytes Base.Corr Framework.Core Framework.Registry Framework.Script.\n"
              "From Gen Require Import RegistryData.\nOpen Scope Z_scope.\nDefinition chk := check_filter real_registry.\n")
    f = common.corr_stream(ctx, "filter", d["cases"]["filter"], header, "chk", "Registry.filter_registry over the real name table", shard=14)
    if not mon:
        common.report_disagreements(ctx, "filter", f, "Framework.Registry.filter_registry", [])
    ctx.cov["rule"] = ("random FilterOptions over the real registry (multisets of known/unknown names with ASCII/Unicode blanks, source lists incl. unknown "
                      "and empty sources, regexps evaluated by Go and passed as a name bitmap, nil vs empty lists) through Registry.Filter vs the Coq filter model "
                      "rebuilt from the dumped registration order; distinct = outcome class x regexp x selected-size bucket")
    ctx.notes["stats"] = d.get("stats")
