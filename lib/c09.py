"""C09 - verdicts do not depend on the signature value."""
import os
import common
from common import cq_bytes, cq_list

THEOREMS = ["c09_meta", "c09_parser_side", "c09_precondition_needed"]

# reads of signature-dependent fields that the design allows (DESIGN.md 5/C09)
ALLOW = [("e_mp_ecdsa_signature_encoding_correct", "Certificate.Signature"),   # length only
         ("e_cert_ext_invalid_der", "Certificate.Raw"),                        # re-parses the structure
         ("e_cert_sig_alg_not_match_tbs_sig_alg", "Certificate.Raw")]          # compares the two algorithm identifiers
ALLOW_ANY_FIELD_SITES = {"Certificate.SelfSigned": ["util/ca.go"]}            # only through util.IsSelfSigned


def run(ctx):
    for t, r in common.standard_theorems(ctx, "Props.C09", THEOREMS):
        ctx.violation("theorem:" + t, "property theorem %s no longer checks: %s" % (t, r[:500]),
                      {"theorem_or_correspondence": "ZL.Props.C09." + t}, found_input=False)
    cli = common.build_cli()
    d = common.harness_json(["c09"], env={"VERIF_CLI": cli}, timeout=1800)
    gd = common.gendir("C09")
    reads = d["data"]["sig_reads"]
    direct = []
    bad_sites = []
    for r in reads:
        allowed_sites = ALLOW_ANY_FIELD_SITES.get(r["Field"])
        if allowed_sites is not None:
            for s in r["Sites"] or []:
                if not any(s.startswith(a) for a in allowed_sites):
                    bad_sites.append((r["Lint"], r["Field"], s))
        else:
            direct.append((r["Lint"], r["Field"]))
    with open(os.path.join(gd, "SigFactsData.v"), "w") as f:
        f.write("From ZL Require Import Base.Bytes Base.BytesFacts.\n")
        f.write("Definition direct_reads : list (bytes * bytes) := %s.\n" % cq_list(["(%s, %s)" % (cq_bytes(a), cq_bytes(b)) for a, b in direct]))
        f.write("Definition allow : list (bytes * bytes) := %s.\n" % cq_list(["(%s, %s)" % (cq_bytes(a), cq_bytes(b)) for a, b in ALLOW]))
        f.write("Definition stray_selfsigned_sites : list bytes := %s.\n" % cq_list([cq_bytes("%s %s" % (a, s)) for a, _, s in bad_sites]))
        f.write("Definition pair_in (p : bytes * bytes) (l : list (bytes * bytes)) : bool := existsb (fun q => beqb (fst p) (fst q) && beqb (snd p) (snd q)) l.\n")
        f.write("(* every read of a signature-dependent field of the certificate is one the design allows *)\n")
        f.write("Lemma reads_allowed : forallb (fun p => pair_in p allow) direct_reads = true.\nProof. vm_compute. reflexivity. Qed.\n")
        f.write("Lemma selfsigned_only_via_helper : match stray_selfsigned_sites with nil => true | _ => false end = true.\nProof. vm_compute. reflexivity. Qed.\n")
    ok, out = common.coqc(os.path.join(gd, "SigFactsData.v"))
    ctx.oblige("Obl_C09_static: signature-dependent certificate fields (Signature, Raw, fingerprints, ValidationLevel) are read only by the allow-listed lints; SelfSigned only through util.IsSelfSigned", ok, out[-1200:])
    if not ok:
        for a, b in direct:
            if (a, b) not in ALLOW:
                ctx.violation("static-read:%s:%s" % (a, b), "lint %s reads the signature-dependent field %s (no certificate found on which its verdict changes with the signature)" % (a, b),
                              {"theorem_or_correspondence": "Gen.SigFactsData.reads_allowed", "lint": a, "field": b}, found_input=False)
        for a, b, s in bad_sites:
            ctx.violation("static-selfsigned:%s" % a, "lint %s reads SelfSigned directly at %s" % (a, s), {"theorem_or_correspondence": "Gen.SigFactsData.selfsigned_only_via_helper"}, found_input=False)
    mon = common.report_monitor_violations(ctx, d)
    ctx.oblige("dynamic: no lint changes status or details when the signature of a non-self-issued corpus certificate is replaced (zeros/random/...); re-signed pairs agree", not mon)
    st = d.get("stats", {})
    ctx.add_eval(st.get("signatures_replaced", 0), distinct=st.get("certs_not_self_issued", 0), traces=st.get("signatures_replaced", 0))
    ctx.cov["rule"] = ("every corpus certificate whose issuer differs from its subject, signature BIT STRING payload replaced in the DER by zeros / random bits (thorough: ones, last bit flipped, "
                      "reversed, second random), re-parsed and linted with all certificate lints, status and details compared (lints not reproducible by themselves skipped); pairs of "
                      "certificates with identical to-be-signed content under two ECDSA signatures; distinct = certificates")
    ctx.notes["stats"] = st
    ctx.notes["classes"] = d["data"]["classes"]
    ctx.notes["sig_dependent_reads"] = {"direct": direct, "selfsigned_readers": len(reads) - len(direct)}
    for s in d.get("samples") or []:
        ctx.sample(s)
    ctx.partial = ("theorem-backed: lifting from signature-blind bodies to the whole result set, and the parser-side rule for non-self-issued certificates (c09_meta, c09_parser_side); "
                   "kernel-checked: the regenerated field-read facts stay inside the allow-list. Explored/trusted: that the read facts imply signature blindness of each body "
                   "(the length-only / structure-only uses are confirmed dynamically, not proved).")
