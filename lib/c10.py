"""C10 - concurrent linting is safe and equals sequential linting."""
import os
import re
import common
from common import cq_bytes, cq_list

ALLOW_CLOCK = ["w_sub_cert_aia_contains_internal_names time.Now", "w_smime_aia_contains_internal_names time.Now"]
THEOREMS = ["c10_schedule_independent", "c10_concurrent_equals_sequential", "c10_no_deadlock"]


def run(ctx):
    for t, r in common.standard_theorems(ctx, "Props.C10", THEOREMS):
        ctx.violation("theorem:" + t, "property theorem %s no longer checks: %s" % (t, r[:500]),
                      {"theorem_or_correspondence": "ZL.Props.C10." + t}, found_input=False)
    race = ctx.tier == "thorough"
    binary = common.build_harness(race=True) if race else None
    rc, so, se = common.harness(["c10"], timeout=3000, binary=binary)
    race_report = None
    if rc == 66 or "WARNING: DATA RACE" in se:
        race_report = se[se.find("WARNING: DATA RACE"):][:4000]
    if rc not in (0, 66):
        raise common.BuildBroken("harness c10 failed (rc=%d): %s" % (rc, se[-2000:]))
    import json
    d = json.loads(so) if so.strip() else {"data": {}, "stats": {}}
    gd = common.gendir("C10")
    gw = (d["data"].get("entry_global_writes") or []) + (d["data"].get("lint_global_writes") or [])
    locks = d["data"].get("lock_ops") or []
    clock = d["data"].get("lint_clock_reads") or []
    ops = [l.split(" ")[1] for l in locks]
    with open(os.path.join(gd, "Obl_C10_static.v"), "w") as f:
        f.write("From ZL Require Import Base.Bytes Base.BytesFacts Framework.Conc Props.C10.\nFrom Coq Require Import List Bool.\nImport ListNotations.\n")
        f.write("(* stores to package-level state reachable from Lint*Ex, the registry read API (Names, Sources, ByName, BySource, Lints, Filter, WriteJSON, ...) or any lint's constructor/Configure/CheckApplies/Execute *)\n")
        f.write("Definition entry_global_writes : list bytes := %s.\n" % cq_list([cq_bytes(x) for x in gw]))
        f.write("Lemma no_shared_writes : match entry_global_writes with nil => true | _ => false end = true.\nProof. vm_compute. reflexivity. Qed.\n")
        f.write("(* reads of the clock, timers or scheduler state reachable from a lint (a step that reads them is not a function of the thread's private store, the hypothesis of c10_schedule_independent);\n   the allow-list is the one of C05: time.Now in the two AIA internal-name lints, used only as the date for util.HasValidTLD *)\n")
        f.write("Definition clock_reads : list bytes := %s.\nDefinition allow_clock_reads : list bytes := %s.\n" % (
            cq_list([cq_bytes(x) for x in clock]), cq_list([cq_bytes(x) for x in ALLOW_CLOCK])))
        f.write("Lemma no_schedule_reads : forallb (fun s => mem s allow_clock_reads) clock_reads = true.\nProof. vm_compute. reflexivity. Qed.\n")
        f.write("(* every lock operation reachable from them, in source order *)\n")
        m = {"RLock": "RLock", "RUnlock": "RUnlock", "Lock": "WLock", "Unlock": "WUnlock"}
        f.write("Definition lock_ops : list lock_op := %s.\n" % cq_list([m.get(o, "WLock") for o in ops]))
        f.write("Lemma locks_read_mode : forallb read_mode lock_ops = true.\nProof. vm_compute. reflexivity. Qed.\n")
        f.write("Theorem readers_never_block : forall o, read_mode o = true -> enabled o (fold_left (fun l o => lock_step o l) lock_ops (mkLock false 0)) = true.\n"
                "Proof. exact (c10_no_deadlock lock_ops locks_read_mode). Qed.\n")
    ok, out = common.coqc(os.path.join(gd, "Obl_C10_static.v"))
    ctx.oblige("Obl_C10_static: no store to package-level state is reachable from the lint entry points and the registry read API; every reachable lock operation is a read-mode one; no lint reads the clock, a timer or the scheduler's state (except time.Now as the date argument of util.HasValidTLD in the two AIA internal-name lints)", ok, out[-1200:])
    mon = common.report_monitor_violations(ctx, d)
    ctx.oblige("dynamic: goroutines linting their own objects against shared registries while readers call Names/Sources/ByName/WriteJSON/Filter get the sequential results; no panic%s" % (
        "; no race report (-race build)" if race else ""), not mon and not race_report)
    if race_report:
        ctx.violation("data-race", "the race detector reports a data race during concurrent linting", {"race_report": race_report})
    if not ok and not mon and not race_report:
        for x in gw:
            ctx.violation("shared-write:" + x.split(" ")[-1], "a store to package-level state is reachable from the concurrent API: " + x,
                          {"theorem_or_correspondence": "Gen.Obl_C10_static.no_shared_writes"}, found_input=False)
        for x in clock:
            if x not in ALLOW_CLOCK:
                ctx.violation("schedule-read:" + x.replace(" ", ":"), "a lint reads the clock, a timer or the scheduler's state, so what it reports can depend on when and beside whom its goroutine runs: " + x,
                              {"theorem_or_correspondence": "Gen.Obl_C10_static.no_schedule_reads"}, found_input=False)
        for l in locks:
            if l.split(" ")[1] in ("Lock", "Unlock"):
                ctx.violation("write-lock:" + l.split(" ")[0], "a write-mode lock operation is reachable from the concurrent read API: " + l,
                              {"theorem_or_correspondence": "Gen.Obl_C10_static.locks_read_mode"}, found_input=False)
    st = d.get("stats", {})
    ctx.add_eval(st.get("concurrent_lint_calls", 0), distinct=st.get("registries", 0), traces=st.get("concurrent_lint_calls", 0))
    ctx.cov["rule"] = ("G goroutines (quick: 8; thorough: 2, 8, 32 under GOMAXPROCS 1, 2, 4, 16 with the race detector) each parse and lint their own objects against the shared global "
                      "and filtered registries while three reader goroutines call Names/Sources/ByName/BySource/WriteJSON/Filter; results compared with the sequential run; static facts "
                      "over the call graph of the entry points; distinct = registries")
    ctx.notes["stats"] = st
    ctx.notes["lock_ops"] = len(locks)
    ctx.notes["race_detector"] = race
    for s in d.get("samples") or []:
        ctx.sample(s)
    ctx.partial = ("theorem-backed: for every interleaving of threads whose steps never write the shared store the final private stores equal those of each thread run alone, and a readers-writer "
                   "lock used in read mode only never blocks (c10_*); kernel-checked: the regenerated call-graph facts show no store to package-level state and only read-mode lock operations "
                   "reachable from the concurrent API. Not exhibited by the model: the Go memory model, goroutine scheduling and the runtime lock implementation - covered only on the "
                   "schedules the race detector and the stress run see.")
