"""C11 - configuration changes only what it names, and errors stay local."""
import os
import common

THEOREMS = ["c11_unrelated", "c11_no_section", "c11_local", "c11_error_local", "c11_never_panics", "c11_filter_keeps_config"]


def run(ctx):
    for t, r in common.standard_theorems(ctx, "Props.C11", THEOREMS):
        ctx.violation("theorem:" + t, "property theorem %s no longer checks: %s" % (t, r[:500]),
                      {"theorem_or_correspondence": "ZL.Props.C11." + t}, found_input=False)
    cli = common.build_cli()
    d = common.harness_json(["c11"], env={"VERIF_CLI": cli})
    gd = common.gendir("C11")
    # data obligation: the hypothesis of c11_never_panics / c11_error_local for non-table sections
    p = os.path.join(gd, "Obl_C11_not_table.v")
    with open(p, "w") as f:
        f.write("From ZL Require Import Base.Bytes Framework.Core Framework.Config Framework.ConfigScript Props.C11.\n")
        f.write("(* what the build does when a lint's section is not a table (probed by a direct call of Configuration.Configure) *)\n")
        f.write("Definition observed_not_table : nt_behaviour := %s.\n" % d["data"]["not_table_coq"])
        f.write("Lemma not_table_is_error : match observed_not_table with NtErr _ => True | NtPanic _ => False end.\nProof. exact I. Qed.\n")
    ok, out = common.coqc(p)
    ctx.oblige("Obl_C11_not_table: a non-table section is a configuration error, not a panic (hypothesis of c11_never_panics)", ok, out[-800:])
    mon = common.report_monitor_violations(ctx, d)
    ctx.oblige("direct monitor: example configuration valid/complete/neutral; unrelated sections neutral; inapplicable sections -> exactly that lint fatal with a configuration error; no leak", not mon)
    if not ok and not mon:
        ctx.violation("obl-not-table", "a non-table section panics: " + d["data"]["not_table_text"], {"theorem_or_correspondence": "Gen.Obl_C11_not_table"}, found_input=False)
    header = "From ZL Require Import Base.Bytes Base.Corr Framework.Core Framework.Config Framework.Script Framework.ConfigScript.\nOpen Scope Z_scope.\n"
    f = common.corr_stream(ctx, "cfg", d["cases"]["cfg"], header, "check_cfg", "Config.crun (routing of TOML sections to configurable lints of the three kinds)")
    cheader = ("From ZL Require Import Base.Bytes Base.Corr Kernels.Calendar.\nFrom Coq Require Import ZArith Bool List.\nImport ListNotations.\nOpen Scope Z_scope.\n"
               "Definition chk_crlcfg (c : bool * Z * Z * bool * Z) : bool := match c with (present, this, next, subscriber, st) =>\n"
               "  st =? (if negb present then 1 else if next_update_too_late subscriber this next then 6 else 3) end.\n")
    fcc = common.corr_stream(ctx, "crlcfg", d["cases"].get("crlcfg", []), cheader, "chk_crlcfg",
                             "Calendar.next_update_too_late vs e_crl_next_update_invalid under the default, SubscriberCRL = true and SubscriberCRL = false (the rule the option selects: 10 days / 12 calendar months)")
    common.require_outcomes(ctx, "crlcfg", d["cases"].get("crlcfg", []), [{"0", "1", "2"}, {"3", "6"}])
    for c in fcc[:3]:
        ctx.violation("spec:crlcfg", "e_crl_next_update_invalid under this configuration does not decide the rule its option selects (Calendar.next_update_too_late, characterised by c05_crl_subscriber_limit / c05_crl_ca_limit) on this revocation list",
                      {"input": c.get("desc"), "coq_case": c.get("coq"), "theorem_or_correspondence": "ZL.Props.C05.c05_crl_ca_limit / c05_crl_subscriber_limit"})
    if not mon:
        common.report_disagreements(ctx, "cfg", f, "Framework.Config.crun", [])
    st = d.get("stats", {})
    ctx.add_eval(st.get("config_comparisons", 0), traces=st.get("config_comparisons", 0))
    ctx.cov["rule"] = ("generated TOML documents (own section: absent / well-typed / ill-typed / scalar / array / empty / unknown key; plus unrelated, global and unknown sections of "
                      "every shape) x scripted configurable lints of the three kinds vs Config.crun; the four real configurable lints under inapplicable sections; the example "
                      "configuration and unrelated-only documents vs no configuration on corpus objects; SetConfiguration/Filter/run op sequence; distinct = (kind, own-section shape, outcome)")
    ctx.notes["stats"] = st
    ctx.notes["configurable_lints"] = d["data"]["configurable"]
    for s in d.get("samples") or []:
        ctx.sample(s)
