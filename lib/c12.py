"""C12 - every lint in the tree is registered once, reachable and well-formed."""
import os
import common
from common import cq_bytes, cq_list, cq_bool

THEOREMS = ["c12_register_inv", "c12_lookups_agree", "c12_names", "c12_register_errors"]
KIND = {"cert": "KCert", "crl": "KCrl", "ocsp": "KOcsp"}
DECLARED = ["Unknown", "RFC3279", "RFC5280", "RFC5480", "RFC5891", "RFC6960", "RFC6962", "RFC8813", "CABF_BR", "CABF_CS_BR",
            "CABF_SMIME_BR", "CABF_EV", "Mozilla", "Apple", "Community", "ETSI_ESI"]


def run(ctx):
    for t, r in common.standard_theorems(ctx, "Props.C12", THEOREMS):
        ctx.violation("theorem:" + t, "property theorem %s no longer checks: %s" % (t, r[:500]),
                      {"theorem_or_correspondence": "ZL.Props.C12." + t}, found_input=False)
    d = common.harness_json(["c12"])
    data = d["data"]
    gd = common.gendir("C12")
    lints, census = data["lints"], data["census"]
    entries = ["(%s, %s, %s)" % (KIND[l["Kind"]], cq_bytes(l["Name"]), cq_bytes(l["Src"])) for l in lints]
    common.write_registry_data(gd, entries)
    with open(os.path.join(gd, "RegistryMeta.v"), "w") as f:
        f.write("From ZL Require Import Base.Bytes Framework.Core Framework.DataChecks.\nOpen Scope Z_scope.\n")
        rows = ["mkRow %s %s %s %s %s %s %s %s" % (KIND[l["Kind"]], cq_bytes(l["Name"]), cq_bytes(l["Desc"][:40]), cq_bytes(l["Src"]), l["Eff"], l["Ineff"],
                                                    cq_bool(not l["CtorNil"]), cq_bool(not l["InstNil"])) for l in lints]
        f.write("Definition rows : list lint_row := [\n  " + ";\n  ".join(rows) + "\n].\n")
        f.write("Definition census_names : list bytes := %s.\n" % cq_list([cq_bytes(c["Name"]) for c in census]))
        f.write("Definition names_api : list bytes := %s.\n" % cq_list([cq_bytes(n) for n in data["names"]]))
        f.write("Definition sources_api : list bytes := %s.\n" % cq_list([cq_bytes(n) for n in data["sources"]]))
        f.write("Definition declared : list bytes := %s.\n" % cq_list([cq_bytes(n) for n in DECLARED]))
        f.write("Definition lint_dirs : list bytes := %s.\n" % cq_list([cq_bytes(n) for n in data["lint_dirs"]]))
        f.write("Definition blank_imports : list bytes := %s.\n" % cq_list([cq_bytes(n) for n in data["blank_imports"]]))
        for k in ("cert", "ocsp", "crl"):
            t = data["tables"][k]
            f.write("Definition dump_%s : list bytes * list bytes * list bytes := (%s, %s, %s).\n" % (
                k, cq_list([cq_bytes(n) for n in (t["Order"] or [])]), cq_list([cq_bytes(n) for n in (t["Names"] or [])]),
                cq_list([cq_bytes(n) for n in sorted(t["Sources"] or [])])))
    ok, out = common.coqc(os.path.join(gd, "RegistryMeta.v"))
    if not ok:
        raise common.BuildBroken("generated RegistryMeta.v does not compile: " + out[-2000:])
    pre = ("From ZL Require Import Base.Bytes Base.BytesFacts Base.Sort Framework.Core Framework.Registry Framework.RegistryFacts "
           "Framework.FilterFacts Framework.Script Framework.DataChecks Props.C12.\nFrom Gen Require Import RegistryData RegistryMeta.\n"
           "From Coq Require Import Sorting.Sorted.\nOpen Scope Z_scope.\n")
    obls = {
        "count": ("the number of registered lints equals the number of registrations in the sources",
                  "Lemma count_ok : Nat.eqb (length rows) (length census_names) = true.\nProof. vm_compute. reflexivity. Qed.\n"),
        "census": ("sorted census names = Names() of the default build",
                   "Lemma census_ok : blist_eqb (isort census_names) names_api = true.\nProof. vm_compute. reflexivity. Qed.\n"),
        "unique": ("names are unique across certificate, CRL and OCSP lints",
                   "Lemma unique_ok : nodupb names_api = true.\nProof. vm_compute. reflexivity. Qed.\n"
                   "Theorem names_unique : NoDup names_api.\nProof. exact (nodupb_sound _ unique_ok). Qed.\n"
                   "Lemma global_ok : global_nodupb real_registry = true.\nProof. vm_compute. reflexivity. Qed.\n"
                   "Theorem registry_global_nodup : GlobalNoDup sobj unit unit real_registry.\nProof. exact (global_nodupb_sound _ global_ok). Qed.\n"),
        "sorted": ("Names() is sorted",
                   "Lemma sorted_ok : sortedb names_api = true.\nProof. vm_compute. reflexivity. Qed.\n"
                   "Theorem names_sorted : StronglySorted ble names_api.\nProof. exact (proj1 (sortedb_sorted _) sorted_ok). Qed.\n"),
        "wellformed": ("every lint: e_/w_/n_ lower-case name, description, declared source other than Unknown, non-nil constructor and instance, effective < ineffective when both set",
                       "Lemma rows_ok : forallb (row_ok declared) rows = true.\nProof. vm_compute. reflexivity. Qed.\n"),
        "imports": ("every lint package directory containing a registration is blank-imported by zlint.go",
                    "Lemma imports_ok : subsetb lint_dirs blank_imports = true.\nProof. vm_compute. reflexivity. Qed.\n"),
        "tables": ("the dumped lookup tables of the default build equal the model's tables (so RInv transfers): order, sorted names, sources, Names(), Sources()",
                   "Lemma tables_ok : tables_eqb (table_of KCert real_registry) dump_cert && tables_eqb (table_of KOcsp real_registry) dump_ocsp && "
                   "tables_eqb (table_of KCrl real_registry) dump_crl && blist_eqb (names _ _ _ real_registry) names_api && "
                   "blist_eqb (isort (sources _ _ _ real_registry)) sources_api = true.\nProof. vm_compute. reflexivity. Qed.\n"
                   "Theorem registry_inv : RInv sobj unit unit real_registry.\nProof. exact (reg_of_inv entries). Qed.\n"),
    }
    paths = []
    for k, (what, body) in obls.items():
        p = os.path.join(gd, "Obl_C12_%s.v" % k)
        with open(p, "w") as f:
            f.write(pre + "(* " + what + " *)\n" + body)
        paths.append((k, what, p))
    res = common.coqc_many([p for _, _, p in paths])
    failed = {}
    for (k, what, p), (ok, out) in zip(paths, res):
        ctx.oblige("Obl_C12_%s: %s" % (k, what), ok, out[-1500:])
        if not ok:
            failed[k] = out
    # ---- search: concrete witnesses for failed data obligations
    reg_names = [l["Name"] for l in lints]
    if failed:
        found = False
        cen = {}
        for c in census:
            cen.setdefault(c["Name"], []).append(c["File"])
        for n, files in sorted(cen.items()):
            if n not in reg_names:
                found = True
                ctx.violation("lost-lint:" + n, "lint %r is registered in %s but absent from the default build's registry" % (n, files),
                              {"input": "default build of zlint (blank imports of v3/zlint.go)", "expected": "lint present in GlobalRegistry()", "observed": "absent",
                               "files": files, "theorem_or_correspondence": "Gen.Obl_C12_census / Obl_C12_count"})
            if len(files) > 1:
                found = True
                ctx.violation("duplicate-registration:" + n, "lint name %r is registered by several files: %s" % (n, files), {"input": files})
        for n in reg_names:
            if n not in cen:
                found = True
                ctx.violation("unaccounted-lint:" + n, "registry holds lint %r which the source census does not find" % n, {"input": n})
        dup = sorted(set(n for n in reg_names if reg_names.count(n) > 1))
        for n in dup:
            found = True
            ctx.violation("duplicate-name:" + n, "lint name %r is registered more than once across kinds" % n, {"input": n})
        for dname in data["lint_dirs"]:
            if dname not in data["blank_imports"]:
                found = True
                ctx.violation("package-not-linked:" + dname, "lint package lints/%s contains registrations but is not blank-imported by v3/zlint.go" % dname,
                              {"input": "v3/zlint.go imports", "observed": data["blank_imports"]})
        for l in lints:
            probs = []
            n = l["Name"]
            if len(n) < 3 or n[:2] not in ("e_", "w_", "n_"):
                probs.append("name lacks an e_/w_/n_ prefix")
            if n != n.lower() or n != n.strip():
                probs.append("name is not lower-case/trimmed")
            if not l["Desc"]:
                probs.append("empty description")
            if l["Src"] not in DECLARED or l["Src"] == "Unknown":
                probs.append("source %r is not a declared source" % l["Src"])
            if l["CtorNil"] or l["InstNil"]:
                probs.append("nil implementation")
            if not l["EffZero"] and not l["IneffZero"] and not l["EffBeforeIneff"]:
                probs.append("effective date does not precede ineffective date")
            if probs:
                found = True
                ctx.violation("malformed-lint:" + n, "lint %r: %s" % (n, "; ".join(probs)), {"input": l})
        if not found:
            for k, out in failed.items():
                ctx.violation("obl:" + k, "data obligation Obl_C12_%s no longer checks: %s" % (k, out[-600:]),
                              {"theorem_or_correspondence": "Gen.Obl_C12_" + k, "coqc": out[-3000:]}, found_input=False)
    mon = common.report_monitor_violations(ctx, d)
    ctx.oblige("direct monitor: ByName/BySource/Sources agree with the listing; tables agree after registration histories", not mon)
    f = common.corr_stream(ctx, "history", d["cases"]["history"], common.SCRIPT_HEADER, "check_hist",
                           "Registry.register over registration histories (all kinds, duplicates, empty names, nil lints)", shard=60)
    if not mon:
        common.report_disagreements(ctx, "history", f, "Framework.Registry.register", [])
    ctx.add_eval(len(lints) + len(census), distinct=len(lints))
    ctx.cov["rule"] = ("data: every registered lint of the default build (dumped through the API and the verif accessors) and every Register*Lint call found by a "
                      "go/parser census of v3/lints; histories: random registration sequences of the three kinds incl. duplicates within/across kinds, empty names, "
                      "nil lints and nil constructors through the unexported register methods vs the Coq register model; distinct = distinct histories by error-code vector")
    ctx.notes["counts"] = {"registered": len(lints), "census": len(census), "lint_dirs": data["lint_dirs"], "blank_imports": data["blank_imports"]}
