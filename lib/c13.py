"""C13 - whatever the tool lists can be used to select."""
import os
import common
from common import cq_bytes, cq_list

THEOREMS = ["c13_list_parse", "c13_unknown_source_rejected", "c13_listed_sources", "c13_names", "c13_unknown_name_rejected"]


def run(ctx):
    bad = common.standard_theorems(ctx, "Props.C13", THEOREMS)
    for t, r in bad:
        ctx.violation("theorem:" + t, "property theorem %s no longer checks: %s" % (t, r[:500]),
                      {"theorem_or_correspondence": "ZL.Props.C13." + t}, found_input=False)
    d = common.harness_json(["c13"])
    data = d["data"]
    gd = common.gendir("C13")
    listed, acc = data["listed_sources"], data["accepted"]
    # ---- generated data + obligations
    with open(os.path.join(gd, "SourcesData.v"), "w") as f:
        f.write("From ZL Require Import Base.Bytes.\n")
        f.write("Definition listed_sources : list bytes := %s.\n" % cq_list([cq_bytes(s) for s in listed]))
        f.write("Definition meta_sources : list bytes := %s.\n" % cq_list([cq_bytes(s) for s in data["meta_sources"]]))
        f.write("Definition accepted : list bytes := %s.\n" % cq_list([cq_bytes(s) for s in acc]))
        f.write("Definition lint_names : list bytes := %s.\n" % cq_list([cq_bytes(s) for s in data["names"]]))
    obl = os.path.join(gd, "Obl_C13_sources.v")
    with open(obl, "w") as f:
        f.write("From ZL Require Import Base.Bytes Kernels.SourceParse Props.C13.\nFrom Gen Require Import SourcesData.\n")
        f.write("(* every source the registry lists (and every source a lint carries) is accepted by the list parser *)\n")
        f.write("Lemma listed_accepted : forallb (listed_ok accepted) listed_sources = true.\nProof. vm_compute. reflexivity. Qed.\n")
        f.write("Lemma meta_accepted : forallb (listed_ok accepted) meta_sources = true.\nProof. vm_compute. reflexivity. Qed.\n")
        f.write("Theorem every_listed_source_parses : forall s, In s listed_sources -> parse_sources accepted s = POk [s].\n")
        f.write("Proof. exact (c13_listed_sources accepted listed_sources listed_accepted). Qed.\n")
    obl2 = os.path.join(gd, "Obl_C13_names.v")
    with open(obl2, "w") as f:
        f.write("From ZL Require Import Base.Bytes Base.BytesFacts.\nFrom Gen Require Import SourcesData.\n")
        f.write("(* names carry no surrounding blanks, so the trimmed comparison of name lists can match them *)\n")
        f.write("Lemma names_trimmed : forallb (fun n => beqb (trim n) n) lint_names = true.\nProof. vm_compute. reflexivity. Qed.\n")
    ok0, out0 = common.coqc(os.path.join(gd, "SourcesData.v"))
    if not ok0:
        raise common.BuildBroken("generated SourcesData.v does not compile: " + out0[-2000:])
    ok1, out1 = common.coqc(obl)
    ctx.oblige("Obl_C13_sources: forallb (listed_ok accepted) listed_sources = true", ok1, out1)
    ok2, out2 = common.coqc(obl2)
    ctx.oblige("Obl_C13_names: every listed name equals its trimmed form", ok2, out2)
    if not ok1:
        # search: which listed source does the implementation reject?  (the concrete failing input)
        found = False
        for s in sorted(set(listed + data["meta_sources"])):
            if s not in acc:
                found = True
                ctx.violation("source-listed-not-accepted:" + s,
                              "source %r is listed by the registry but rejected by SourceList.FromString (hence by -includeSources/-excludeSources)" % s,
                              {"input": s, "expected": "SourceList.FromString(%r) = [%s]" % (s, s), "observed": "error: unknown lint source in list",
                               "theorem_or_correspondence": "Gen.Obl_C13_sources.listed_accepted",
                               "replay_cmd": ["c13replay", "source", s]})
        if not found:
            ctx.violation("obl-sources", "Obl_C13_sources no longer checks: " + out1[-800:],
                          {"theorem_or_correspondence": "Gen.Obl_C13_sources", "coqc": out1[-3000:]}, found_input=False)
    if not ok2:
        ctx.violation("obl-names", "a listed lint name has surrounding blanks: " + out2[-800:],
                      {"theorem_or_correspondence": "Gen.Obl_C13_names", "coqc": out2[-3000:]}, found_input=False)
    # json round trip (data)
    for s, okj in sorted(data["json_roundtrip"].items()):
        ctx.oblige("json round trip of listed source " + s, okj)
        if not okj:
            ctx.violation("json-roundtrip:" + s, "listed source %r does not survive a JSON round trip" % s,
                          {"input": s, "replay_cmd": ["c13replay", "json", s]})
    # harness-observed violations (names, profiles, unknowns)
    for v in d.get("violations") or []:
        ctx.violation(v["key"], v["what"], {"input": v.get("input"), "expected": v.get("expected"), "observed": v.get("observed")})
    # ---- correspondence: parse_sources model vs SourceList.FromString on the same raw strings
    cases = d["cases"]["sources"]
    header = ("From ZL Require Import Base.Bytes Base.BytesFacts Base.Corr Kernels.SourceParse.\nFrom Gen Require Import SourcesData.\n"
              "Definition chk (c : bytes * option (list bytes)) : bool :=\n"
              "  match parse_sources accepted (fst c), snd c with\n"
              "  | POk l, Some l' => (fix eq (a b : list bytes) := match a, b with [] , [] => true | x :: a', y :: b' => beqb x y && eq a' b' | _, _ => false end) l l'\n"
              "  | PErr _, None => true\n  | _, _ => false end.\n")
    okf, nf, failing, logs = common.run_cases("C13", "sources", header, [c["coq"] for c in cases], "chk")
    ctx.oblige("correspondence parse_sources ~ SourceList.FromString (%d cases)" % len(cases), okf == nf and not failing,
               str(logs)[:2000] + " failing=" + str(failing[:10]))
    for i in failing[:5]:
        c = cases[i]["desc"]
        ctx.violation("corr-sources", "model parse_sources and SourceList.FromString disagree on %r (implementation: ok=%s list=%s)" % (c["raw"], c["ok"], c["list"]),
                      {"input": c["raw"], "observed": c, "theorem_or_correspondence": "correspondence Kernels.SourceParse.parse_sources"},
                      found_input=False)
    if okf != nf:
        ctx.violation("corr-sources-broken", "correspondence file did not compile: " + str(logs)[:1500],
                      {"theorem_or_correspondence": "Cases_sources"}, found_input=False)
    tags = set(c.get("tag") for c in cases)
    ctx.add_eval(len(cases) + d["stats"].get("name_filters", 0) + d["stats"].get("unknown_name_probes", 0),
                 distinct=len(set(c["desc"]["raw"] for c in cases if c["desc"]["raw"].strip(" ,"))), traces=len(cases))
    ctx.cov["rule"] = ("raw source lists built from accepted/unknown/probe elements with Unicode blanks, compared between "
                      "SourceList.FromString and the Coq model; distinct = distinct raw strings with at least one non-blank element; "
                      "plus Filter{Include,Exclude}Names on every listed name and on mutated unknown names")
    ctx.notes["input_distribution"] = {"result_classes": sorted(tags), "listed_sources": len(listed), "accepted_probes": len(acc),
                                       "probes": len(data["probes"]), "names": data["n_names"], "profiles": data["profiles"]}
    for c in cases[100:103]:
        ctx.sample(c["desc"])
    quick_cli(ctx, listed)
    if ctx.tier == "thorough":
        thorough_cli(ctx, listed)


def quick_cli(ctx, listed):
    """the command-line tool: unknown selectors are refused wherever they stand - alone, next to valid selectors of the other
    option, in every position of a list - and listed sources are accepted in combination"""
    cli = common.build_cli()
    cert = os.path.join(common.REPO, "v3/testdata/caBasicConstCrit.pem")
    good_s = [x for x in listed if x not in ("Unknown",)][:3] or ["RFC5280"]
    bad_s, bad_n, good_n = "Mozila", "e_no_such_lint", "e_ca_common_name_missing"
    refuse = [
        ["-includeSources", bad_s], ["-excludeSources", bad_s],
        ["-includeSources", good_s[0], "-excludeSources", bad_s], ["-excludeSources", good_s[0], "-includeSources", bad_s],
        ["-excludeSources", bad_s, "-includeSources", ",".join(good_s)], ["-includeSources", good_s[0] + "," + bad_s],
        ["-excludeSources", bad_s + "," + good_s[0]], ["-includeSources", bad_s, "-excludeSources", bad_s],
        ["-includeNames", bad_n], ["-excludeNames", bad_n], ["-includeNames", good_n + "," + bad_n], ["-excludeNames", bad_n + "," + good_n],
        ["-includeNames", good_n, "-excludeNames", bad_n], ["-excludeNames", good_n, "-includeNames", bad_n],
        ["-includeSources", good_s[0], "-excludeNames", bad_n], ["-excludeSources", bad_s, "-includeNames", good_n],
    ]
    nbad = 0
    for flags in refuse:
        for mode in ([cert], ["-list-lints-source"]):
            rc, so, se = common.sh([cli] + flags + mode, timeout=60)
            ctx.add_eval(1, traces=1)
            if rc == 0:
                nbad += 1
                ctx.violation("cli-unknown-selector-ignored:" + " ".join(flags), "zlint %s %s exits 0: an unknown source or lint name is silently ignored" % (" ".join(flags), " ".join(mode)[-40:]),
                              {"input": flags + mode, "observed": {"rc": rc, "stdout": so[:300]}})
    ctx.oblige("CLI refuses unknown sources and lint names in every flag, alone and next to valid selectors (%d invocations)" % (2 * len(refuse)), nbad == 0)
    accept = [["-includeSources", ",".join(good_s)], ["-excludeSources", good_s[0], "-includeSources", good_s[-1]], ["-includeNames", good_n, "-excludeSources", "Mozilla"]]
    nacc = 0
    for flags in accept:
        rc, so, se = common.sh([cli] + flags + [cert], timeout=60)
        ctx.add_eval(1, traces=1)
        if rc != 0 or not so.strip().startswith("{"):
            nacc += 1
            ctx.violation("cli-listed-selector-refused:" + " ".join(flags), "zlint %s fails: %s" % (" ".join(flags), se.strip()[-200:]), {"input": flags, "observed": {"rc": rc, "stderr": se[-300:]}})
    ctx.oblige("CLI accepts listed sources and names in combination", nacc == 0)


def thorough_cli(ctx, listed):
    """each listed source through the real CLI's -includeSources / -excludeSources"""
    cli = common.build_cli()
    cert = os.path.join(common.REPO, "v3/testdata/caBasicConstCrit.pem")
    for s in listed:
        for flag in ("-includeSources", "-excludeSources"):
            rc, so, se = common.sh([cli, flag, s, cert], timeout=60)
            ok = rc == 0 and so.strip().startswith("{")
            ctx.oblige("CLI %s %s" % (flag, s), ok, se[-300:])
            ctx.add_eval(1, traces=1)
            if not ok:
                ctx.violation("source-listed-not-accepted:" + s, "zlint %s %s fails: %s" % (flag, s, se.strip()[-200:]),
                              {"input": [flag, s, cert], "observed": {"rc": rc, "stderr": se[-500:]}})
    rc, so, se = common.sh([cli, "-includeSources", "NoSuchSource", cert], timeout=60)
    ctx.oblige("CLI rejects unknown source", rc != 0 and not so.strip())
    rc, so, se = common.sh([cli, "-includeNames", "e_no_such_lint", cert], timeout=60)
    ctx.oblige("CLI rejects unknown name", rc != 0 and not so.strip())
