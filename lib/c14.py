"""C14 - JSON output is faithful and reversible."""
import os
import common
from common import cq_bytes, cq_list

THEOREMS = ["c14_labels_distinct", "c14_label_roundtrip", "c14_unknown_rejected", "c14_out_of_range", "c14_result_roundtrip",
            "c14_sanitize_valid", "c14_sanitize_id", "c14_sanitize_idempotent", "c14_listing"]

HEADER = ("From ZL Require Import Base.Bytes Base.BytesFacts Base.Corr Framework.Core Kernels.StatusJson Kernels.Utf8.\nOpen Scope Z_scope.\n"
          "Definition chk_label (c : Z * bytes * bytes) : bool := match c with (s, l, j) => beqb (label s) l && beqb (marshal_status s) j end.\n"
          "Definition chk_parse (c : bytes * option Z) : bool := match parse_label (fst c), snd c with Some a, Some b => (a =? b) | None, None => true | _, _ => false end.\n"
          "Definition chk_details (c : bytes * bytes) : bool := beqb (sanitize (fst c)) (snd c).\n")


def run(ctx):
    for t, r in common.standard_theorems(ctx, "Props.C14", THEOREMS):
        ctx.violation("theorem:" + t, "property theorem %s no longer checks: %s" % (t, r[:500]),
                      {"theorem_or_correspondence": "ZL.Props.C14." + t}, found_input=False)
    d = common.harness_json(["c14"])
    gd = common.gendir("C14")
    mon = common.report_monitor_violations(ctx, d)
    ctx.oblige("direct monitor: statuses, details (invalid bytes -> U+FFFD), flags and version survive the JSON round trip; listing lines decode to the lints", not mon)
    f1 = common.corr_stream(ctx, "labels", d["cases"]["labels"], HEADER, "chk_label", "StatusJson.label / marshal_status vs LintStatus.String / MarshalJSON")
    f2 = common.corr_stream(ctx, "parse", d["cases"]["parse"], HEADER, "chk_parse", "StatusJson.parse_label vs LintStatus.UnmarshalJSON")
    f3 = common.corr_stream(ctx, "details", d["cases"]["details"], HEADER, "chk_details", "Utf8.sanitize vs encoding/json round trip of Details")
    for c in f1[:3]:
        ctx.violation("label-table:%s" % c["desc"]["status"], "status %s prints label %r / JSON %r, which differs from the stable table" % (
            c["desc"]["status"], c["desc"]["label"], c["desc"]["json"]), {"input": c["desc"], "theorem_or_correspondence": "c14_labels_distinct / label table"})
    if not mon:
        common.report_disagreements(ctx, "parse", f2, "Kernels.StatusJson.parse_label", [])
        common.report_disagreements(ctx, "details", f3, "Kernels.Utf8.sanitize", [])
    # listing order = model listing of the registry rebuilt from the dump
    common.write_registry_data(gd, d["data"]["entries_coq"])
    p = os.path.join(gd, "Obl_C14_listing.v")
    with open(p, "w") as f:
        f.write("From ZL Require Import Base.Bytes Framework.Core Framework.Registry Framework.Script.\nFrom Gen Require Import RegistryData.\n")
        f.write("Definition listing_names : list bytes := %s.\n" % cq_list([cq_bytes(n) for n in d["data"]["listing_names"]]))
        f.write("(* WriteJSON prints one line per registered lint, in the model's listing order *)\n")
        f.write("Lemma listing_ok : blist_eqb (map name_of (listing _ _ _ real_registry)) listing_names = true.\nProof. vm_compute. reflexivity. Qed.\n")
    ok, out = common.coqc(p)
    ctx.oblige("Obl_C14_listing: WriteJSON lines = listing of the model registry (one per lint, cert/OCSP/CRL order)", ok, out[-1500:])
    if not ok and not mon:
        ctx.violation("obl-listing", "WriteJSON lines differ from the registry listing: " + out[-600:],
                      {"theorem_or_correspondence": "Gen.Obl_C14_listing"}, found_input=False)
    ctx.add_eval(d["stats"].get("resultsets_roundtripped", 0) + d["data"]["listing_lines"], traces=d["stats"].get("resultsets_roundtripped", 0))
    ctx.cov["rule"] = ("labels: statuses -2..10 through String/MarshalJSON; parse: label strings, mutated labels and non-string JSON tokens through UnmarshalJSON; "
                      "details: byte strings mixing ASCII, valid multi-byte runes and invalid/overlong/surrogate sequences through a ResultSet round trip vs Utf8.sanitize; "
                      "corpus result sets round-tripped; listing decoded line by line; distinct = classes (changed-by-codec x length, accepted/rejected)")
    ctx.notes["stats"] = d.get("stats")
