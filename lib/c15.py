"""C15 - the CLI reports what the library computes and fails closed."""
import common

THEOREMS = ["c15_same_as_library", "c15_format_independent", "c15_fail_closed", "c15_exit_status", "c15_summary",
            "c15_base64_roundtrip", "c15_base64_roundtrip_wrapped"]


def run(ctx):
    for t, r in common.standard_theorems(ctx, "Props.C15", THEOREMS):
        ctx.violation("theorem:" + t, "property theorem %s no longer checks: %s" % (t, r[:500]),
                      {"theorem_or_correspondence": "ZL.Props.C15." + t}, found_input=False)
    cli = common.build_cli()
    d = common.harness_json(["c15"], env={"VERIF_CLI": cli}, timeout=1800)
    common.gendir("C15")
    mon = common.report_monitor_violations(ctx, d)
    ctx.oblige("direct monitor: CLI stdout = library JSON under the same selection in every encoding, from file and stdin, several files per invocation, CRL via PEM; "
               "summary counts; non-zero exit and no result object on undecodable input and unknown selectors", not mon)
    header = "From ZL Require Import Base.Bytes Base.Corr Kernels.Cli.\nOpen Scope Z_scope.\n"
    f = common.corr_stream(ctx, "cli", d["cases"]["cli"], header, "check_cli", "Cli.do_lint / file_format / format_of_flag vs the zlint binary")
    if not mon:
        common.report_disagreements(ctx, "cli", f, "Kernels.Cli.do_lint", [])
    st = d.get("stats", {})
    ctx.add_eval(st.get("invocations", 0), traces=st.get("invocations", 0))
    ctx.cov["rule"] = ("invocations of the zlint binary built from /repo/v3/cmd/zlint: corpus certificates as PEM/DER/base64 (plain and line-wrapped), by file (with and without the "
                      ".pem/.der suffix override) and standard input, under six lint selections, compared with in-process library results; mismatched format/suffix combinations, "
                      "unknown formats; several files per invocation incl. a CRL and a bad file in the middle; undecodable inputs; unknown names/sources/profile/regexp; "
                      "summary tables parsed back; distinct = (format flag, suffix, outcome) classes")
    ctx.notes["stats"] = st
