"""C16 - RSA key-quality verdicts are arithmetically exact."""
import os
import common

THEOREMS = ["c16_mod_min", "c16_bitlen", "c16_mod_div8", "c16_mod_odd", "c16_mod_factors", "c16_exp_odd", "c16_exp_too_small",
            "c16_exp_one", "c16_exp_range", "c16_fermat_sound", "c16_fermat_complete", "c16_fermat_no_rounds"]


def is_prime(n):
    return n >= 2 and all(n % d for d in range(2, int(n ** 0.5) + 1))


def run(ctx):
    for t, r in common.standard_theorems(ctx, "Props.C16", THEOREMS):
        ctx.violation("theorem:" + t, "property theorem %s no longer checks: %s" % (t, r[:500]),
                      {"theorem_or_correspondence": "ZL.Props.C16." + t}, found_input=False)
    d = common.harness_json(["c16"])
    gd = common.gendir("C16")
    primes = d["data"]["primes"]
    with open(os.path.join(gd, "PrimesData.v"), "w") as f:
        f.write("From Coq Require Import ZArith List.\nImport ListNotations.\nOpen Scope Z_scope.\n")
        f.write("Definition primes : list Z := [%s].\n" % "; ".join(primes))
    ok, out = common.coqc(os.path.join(gd, "PrimesData.v"))
    if not ok:
        raise common.BuildBroken("PrimesData.v does not compile: " + out[-1500:])
    p = os.path.join(gd, "Obl_C16_primes.v")
    with open(p, "w") as f:
        f.write("From ZL Require Import Kernels.Rsa Props.C16.\nFrom Gen Require Import PrimesData.\nFrom Coq Require Import ZArith List Znumtheory.\nOpen Scope Z_scope.\n")
        f.write("(* the trial-division table of the build: every entry in [2,751], every d in [2,751] divisible by an entry *)\n")
        f.write("Lemma table_complete : primes_complete primes = true.\nProof. vm_compute. reflexivity. Qed.\n")
        f.write("Theorem factor_lint_exact : forall n, lint_mod_factors primes n = sWarn <-> exists d, 2 <= d < 752 /\\ (d | n).\n")
        f.write("Proof. exact (c16_mod_factors primes table_complete). Qed.\n")
    ok1, out1 = common.coqc(p)
    ctx.oblige("Obl_C16_primes: primes_complete (regenerated table) = true, hence the factor lint is exact for every modulus", ok1, out1[-1500:])
    cases = d["cases"]["rsa"]
    if not ok1:
        table = set(int(x) for x in primes)
        missing = [q for q in range(2, 752) if is_prime(q) and q not in table]
        extra = [q for q in table if q < 2 or q > 751]
        found = False
        for q in missing:
            for c in cases:
                if c["desc"]["why"] == "d=%d * prime cofactor" % q and c["desc"]["statuses"].get("w_rsa_mod_factors_smaller_than_752") == 3:
                    found = True
                    ctx.violation("missing-prime:%d" % q, "modulus with factor %d < 752 passes w_rsa_mod_factors_smaller_than_752 (prime %d is missing from the table)" % (q, q),
                                  {"input": {"der": c["desc"]["der"], "factor": q}, "expected": "warn", "observed": "pass",
                                   "theorem_or_correspondence": "Gen.Obl_C16_primes.table_complete"})
                    break
        for q in extra:
            found = True
            ctx.violation("table-entry-out-of-range:%d" % q, "prime table entry %d lies outside [2,751]: a modulus divisible by it is reported as having a factor below 752" % q,
                          {"input": q})
        if not found:
            ctx.violation("obl-primes", "Obl_C16_primes no longer checks: " + out1[-600:], {"theorem_or_correspondence": "Gen.Obl_C16_primes", "missing": missing},
                          found_input=False)
    mon = common.report_monitor_violations(ctx, d)
    ctx.oblige("direct monitor: results present; reported Fermat factors multiply back to the modulus", not mon)
    header = ("From ZL Require Import Base.Corr Kernels.Rsa.\nFrom Gen Require Import PrimesData.\nFrom Coq Require Import ZArith List.\nImport ListNotations.\nOpen Scope Z_scope.\n"
              "Fixpoint zl_eqb (a b : list Z) : bool := match a, b with [], [] => true | x :: a', y :: b' => (x =? y) && zl_eqb a' b' | _, _ => false end.\n"
              "Definition chk (c : Z * Z * Z * list Z) : bool := match c with (n, e, rounds, sts) =>\n"
              "  zl_eqb [lint_mod_min 2048 n; lint_mod_odd n; lint_mod_factors primes n; lint_exp_odd e; lint_exp_too_small e; lint_exp_range e;\n"
              "          lint_mod_min 2048 n; lint_mod_div8 n; lint_exp_one e; lint_fermat n rounds] sts end.\n"
              "Definition chk_min (c : Z * Z * Z) : bool := match c with (m, n, s) => lint_mod_min m n =? s end.\n")
    f1 = common.corr_stream(ctx, "rsa", cases, header, "chk", "Kernels.Rsa lint functions on (N, e, rounds) vs the ten RSA lints on re-keyed certificates", shard=40)
    f2 = common.corr_stream(ctx, "rsa_min", d["cases"]["rsa_min"], header, "chk_min", "Kernels.Rsa.lint_mod_min vs the dated 1024/2048-bit lints and the 3072-bit code-signing lint")
    for c in (f1 + f2)[:5]:
        dd = dict(c["desc"])
        ctx.violation("rsa-verdict:%s" % dd.get("why", dd.get("lint")), "RSA lint verdicts differ from their arithmetic predicates on key: %s" % {k: v for k, v in dd.items() if k != "der"},
                      {"input": dd, "theorem_or_correspondence": "correspondence Kernels.Rsa"})
    ctx.cov["rule"] = ("certificates re-keyed with chosen (N, e) through crypto/x509 + the zcrypto parser: bit lengths one below/at/above each minimum and around multiples of 8, "
                      "N = d * prime cofactor for d in [2,760] (all primes; all d in thorough), primes just above 751, exponent edges, products of neighbouring primes with tuned gaps "
                      "under configured Fermat round counts, random keys; distinct = distinct status vectors")
    ctx.notes["stats"] = d.get("stats")
    ctx.notes["prime_table_size"] = len(primes)
