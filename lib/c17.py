"""C17 - verdicts do not depend on the order of SAN entries or of extensions."""
import common

THEOREMS = ["c17_first_offender_perm", "c17_label_lints_perm", "c17_na_first_refuted", "c17_find_ext_perm", "c17_name_lints_perm", "c17_name_lints_range", "c17_name_twins_agree", "c17_gn_lints_perm", "c17_raw_lints_perm", "c17_cn_san_lints_perm", "c17_cn_exact_spec", "c17_subject_length_lints_perm", "c17_subject_length_spec", "c17_arpa_lints_perm", "c17_gn_sn_policy_perm", "c17_ev_lints_perm", "c17_policy_duplicate_perm", "c17_nc_form_perm", "c17_presence_lints_perm", "c17_url_lints_perm", "c17_empty_name_perm", "c17_empty_name_spec", "c17_tor_perm", "c17_tor_spec"]

# lints that walk c.Extensions themselves (reviewed: they look extensions up by OID or test every element)
ALLOW_EXT_READERS = None  # recorded, not gated: the dynamic permutation run decides


def run(ctx):
    for t, r in common.standard_theorems(ctx, "Props.C17", THEOREMS):
        ctx.violation("theorem:" + t, "property theorem %s no longer checks: %s" % (t, r[:500]),
                      {"theorem_or_correspondence": "ZL.Props.C17." + t}, found_input=False)
    d = common.harness_json(["c17"], timeout=3000)
    common.gendir("C17")
    mon = common.report_monitor_violations(ctx, d)
    ctx.oblige("dynamic: status vectors of all certificate lints are equal for every permutation of the SAN GeneralNames (all permutations up to 4 entries) and for permuted extension lists without duplicates", not mon)
    header = ("From ZL Require Import Base.Bytes Base.Corr Kernels.Order.\nFrom Coq Require Import ZArith List.\nImport ListNotations.\nOpen Scope Z_scope.\n"
              "Fixpoint zl_eqb (a b : list Z) : bool := match a, b with [], [] => true | x :: a', y :: b' => (x =? y) && zl_eqb a' b' | _, _ => false end.\n"
              "Definition chk (c : option pname * list pname * list Z) : bool := match c with (cn, san, sts) =>\n"
              "  zl_eqb [lint_rfc 6 hyphen_sld san; lint_rfc 6 underscore_sld san; lint_rfc 5 underscore_trd san;\n"
              "          lint_br 6 hyphen_sld cn san; lint_br 6 underscore_sld cn san; lint_br 5 underscore_trd cn san; lint_br 4 wildcard_sld cn san] sts end.\n")
    f = common.corr_stream(ctx, "labels", d["cases"].get("labels", []), header, "chk",
                           "Order.lint_rfc / lint_br (the seven DNS-label lints; the public-suffix parser's answers are supplied per name)")
    if not mon:
        for c in f[:5]:
            ctx.violation("label-lint-model:" + "".join(c["desc"]["statuses"]), "a DNS-label lint no longer evaluates names as a set (model: finding, else NA if unparseable, else pass) on cn=%r dns=%r: statuses %s" % (
                c["desc"]["cn"], c["desc"]["dns"], c["desc"]["statuses"]),
                {"input": c["desc"], "theorem_or_correspondence": "correspondence Kernels.Order.lint_rfc/lint_br (c17_label_lints_perm applies to the model only)"}, found_input=False)
    nheader = ("From ZL Require Import Base.Bytes Base.Corr Kernels.Names.\nFrom Coq Require Import ZArith List.\nImport ListNotations.\nOpen Scope Z_scope.\n"
               "Fixpoint zl_ok (m o : list Z) : bool := match m, o with [], [] => true | x :: m', y :: o' => ((y =? -9) || (x =? y)) && zl_ok m' o' | _, _ => false end.\n"
               "Definition chkn (c : nview * list Z) : bool := zl_ok (all_name_lints (fst c)) (snd c).\n")
    fn = common.corr_stream(ctx, "names", d["cases"].get("names", []), nheader, "chkn",
                            "Names.all_name_lints (fourteen name-scanning lints, modelled in full) vs the real lints through the framework")
    common.require_outcomes(ctx, "names", d["cases"].get("names", []), [{"1", "3", "6"}] * 8 + [{"1", "3", "4"}] + [{"1", "3", "6"}] * 5)
    if not mon:
        common.report_disagreements(ctx, "names", fn, "Kernels.Names.all_name_lints (c17_name_lints_perm applies to the model only)", [])
    cheader = ("From ZL Require Import Base.Bytes Base.Corr Kernels.CnSan.\nFrom Coq Require Import ZArith List.\nImport ListNotations.\nOpen Scope Z_scope.\n"
               "Definition fold_ascii (a b : bytes) : bool := beqb (map lower_ascii a) (map lower_ascii b).\n"
               "Definition zq (m o : Z) : bool := (o =? -9) || (m =? o).\n"
               "Definition chkc (c : cview * list Z * bytes) : bool := match c with (v, sts, det) =>\n"
               "  match sts with [a; b; r; e] => zq (fst (l_cn_exact v)) a && (negb (a =? 6) || beqb (snd (l_cn_exact v)) det) && zq (l_cn_from_san fold_ascii v) b && zq (l_redacted v) r && zq (l_ev_wildcard v) e\n"
               "  | _ => false end end.\n")
    fc = common.corr_stream(ctx, "cnsan", d["cases"].get("cnsan", []), cheader, "chkc",
                            "CnSan.l_cn_exact / l_cn_from_san / l_redacted / l_ev_wildcard (common name versus SAN entries, modelled in full) vs the real lints by direct call")
    common.require_outcomes(ctx, "cnsan", d["cases"].get("cnsan", []), [{"1", "3", "6"}, {"1", "3", "6"}, {"1", "3", "4"}, {"1", "3", "6"}])
    if not mon:
        common.report_disagreements(ctx, "cnsan", fc, "Kernels.CnSan (c17_cn_san_lints_perm applies to the model only)", [])
    theader = ("From ZL Require Import Base.Bytes Base.Corr Kernels.Tor.\nFrom Coq Require Import ZArith List.\nImport ListNotations.\nOpen Scope Z_scope.\n"
               "Definition chkt (c : tor_view * Z) : bool := l_tor (fst c) =? snd c.\n")
    ft = common.corr_stream(ctx, "tor", d["cases"].get("tor", []), theader, "chkt",
                            "Tor.l_tor (e_ext_tor_service_descriptor_hash_invalid, status; net/url as oracle per descriptor) vs the real lint by direct call")
    common.require_outcomes(ctx, "tor", d["cases"].get("tor", []), [{"3", "6"}])
    if not mon:
        common.report_disagreements(ctx, "tor", ft, "Kernels.Tor.l_tor (c17_tor_perm applies to the model only)", [])
    dheader = ("From ZL Require Import Base.Bytes Base.Corr Kernels.Der.\nFrom Coq Require Import ZArith NArith List.\nImport ListNotations.\nOpen Scope Z_scope.\n"
               "Definition chkd (c : bytes * Z * Z) : bool := match c with (v, a, b) => (l_empty_name v =? a) && (l_empty_name v =? b) end.\n")
    fd = common.corr_stream(ctx, "der", d["cases"].get("der", []), dheader, "chkd",
                            "Der.l_empty_name (e_ext_san_empty_name and e_ext_ian_empty_name with zcrypto's DER tag/length reader, modelled in full) vs the real lints by direct call on built extension values", shard=250)
    common.require_outcomes(ctx, "der", d["cases"].get("der", []), [{"1", "3", "6", "7"}, {"1", "3", "6", "7"}])
    if not mon:
        common.report_disagreements(ctx, "der", fd, "Kernels.Der.l_empty_name (c17_empty_name_perm applies to the model only)", [])
    uheader = ("From ZL Require Import Base.Bytes Base.Corr Kernels.Urls.\nFrom Coq Require Import ZArith List.\nImport ListNotations.\nOpen Scope Z_scope.\n"
               "Definition fold_ascii_u (a b : bytes) : bool := beqb (map lower_ascii a) (map lower_ascii b).\n"
               "Fixpoint zl_equ (m o : list Z) : bool := match m, o with [], [] => true | x :: m', y :: o' => (x =? y) && zl_equ m' o' | _, _ => false end.\n"
               "Definition chku (c : url_view * list Z) : bool := zl_equ (all_url_lints fold_ascii_u (fst c)) (snd c).\n")
    fu = common.corr_stream(ctx, "urls", d["cases"].get("urls", []), uheader, "chku",
                            "Urls.all_url_lints (fifteen lints over the AIA / CDP URL lists; net/url as oracle per URL) vs the real lints by direct call")
    common.require_outcomes(ctx, "urls", d["cases"].get("urls", []), [{"3", "5"}, {"3", "5"}] + [{"3", "6"}] * 11 + [{"3", "5"}, {"3", "5"}])
    if not mon:
        common.report_disagreements(ctx, "urls", fu, "Kernels.Urls.all_url_lints (c17_url_lints_perm applies to the model only)", [])
    pheader = ("From ZL Require Import Base.Bytes Base.Corr Kernels.Scope Kernels.SubjPresence.\nFrom Coq Require Import ZArith List.\nImport ListNotations.\nOpen Scope Z_scope.\n"
               "Fixpoint zl_eqp (m o : list Z) : bool := match m, o with [], [] => true | x :: m', y :: o' => (x =? y) && zl_eqp m' o' | _, _ => false end.\n"
               "Definition chkp (c : subj_view * list Z) : bool := zl_eqp (all_presence_lints (fst c)) (snd c).\n")
    fp = common.corr_stream(ctx, "presence", d["cases"].get("presence", []), pheader, "chkp",
                            "SubjPresence.all_presence_lints (twenty-three subject-attribute presence lints of the TLS BRs) vs the real lints by direct call")
    common.require_outcomes(ctx, "presence", d["cases"].get("presence", []), [{"3", "6"}] * 19 + [{"3", "4"}, {"3", "5"}, {"3", "6"}, {"3", "5"}])
    if not mon:
        common.report_disagreements(ctx, "presence", fp, "Kernels.SubjPresence.all_presence_lints (c17_presence_lints_perm applies to the model only)", [])
    eheader = ("From ZL Require Import Base.Bytes Base.Corr Kernels.Scope Kernels.EvPresence.\nFrom Coq Require Import ZArith List.\nImport ListNotations.\nOpen Scope Z_scope.\n"
               "Fixpoint zl_eqe (m o : list Z) : bool := match m, o with [], [] => true | x :: m', y :: o' => (x =? y) && zl_eqe m' o' | _, _ => false end.\n"
               "Definition chke (c : ev_view * list Z) : bool := zl_eqe (all_ev_lints (fst c)) (snd c).\n")
    fe = common.corr_stream(ctx, "ev", d["cases"].get("ev", []), eheader, "chke", "EvPresence.all_ev_lints (five EV presence lints) vs the real lints by direct call")
    common.require_outcomes(ctx, "ev", d["cases"].get("ev", []), [{"3", "6"}] * 5)
    if not mon:
        common.report_disagreements(ctx, "ev", fe, "Kernels.EvPresence.all_ev_lints", [])
    aheader = ("From ZL Require Import Base.Bytes Base.Corr Kernels.Scope Kernels.CaSubject.\nFrom Coq Require Import ZArith List.\nImport ListNotations.\nOpen Scope Z_scope.\n"
               "Fixpoint zl_eqa (m o : list Z) : bool := match m, o with [], [] => true | x :: m', y :: o' => (x =? y) && zl_eqa m' o' | _, _ => false end.\n"
               "Definition chka (c : cs_view * list Z) : bool := zl_eqa (all_ca_subject_lints (fst c)) (snd c).\n")
    fa = common.corr_stream(ctx, "casubj", d["cases"].get("casubj", []), aheader, "chka", "CaSubject.all_ca_subject_lints (eight subject / validity bodies) vs the real lints by direct call")
    common.require_outcomes(ctx, "casubj", d["cases"].get("casubj", []), [{"3", "6"}] * 8)
    if not mon:
        common.report_disagreements(ctx, "casubj", fa, "Kernels.CaSubject.all_ca_subject_lints", [])
    lheader = ("From ZL Require Import Base.Bytes Base.Corr Kernels.SubjLen.\nFrom Coq Require Import ZArith List.\nImport ListNotations.\nOpen Scope Z_scope.\n"
               "Fixpoint zl_eq (m o : list Z) : bool := match m, o with [], [] => true | x :: m', y :: o' => (x =? y) && zl_eq m' o' | _, _ => false end.\n"
               "Definition chkl (c : list (list bytes) * list Z) : bool := zl_eq (all_len_lints (fst c)) (snd c).\n")
    fl = common.corr_stream(ctx, "subjlen", d["cases"].get("subjlen", []), lheader, "chkl",
                            "SubjLen.all_len_lints (thirteen subject-attribute length lints; characters counted as utf8.RuneCountInString does) vs the real lints by direct call", shard=25)
    common.require_outcomes(ctx, "subjlen", d["cases"].get("subjlen", []), [{"1", "3", "6"}] * 4 + [{"1", "3", "5"}] + [{"1", "3", "6"}] * 7 + [{"1", "3", "5"}])
    if not mon:
        common.report_disagreements(ctx, "subjlen", fl, "Kernels.SubjLen (c17_subject_length_lints_perm applies to the model only)", [])
    # static (go/ast, regenerated): no loop over a SAN name list, or over the extension list, can leave with two different statuses
    san_fields = {"DNSNames", "EmailAddresses", "URIs", "IPAddresses", "OtherNames", "DirectoryNames", "EDIPartyNames", "RegisteredIDs", "FailedToParseNames",
                  "PermittedDNSNames", "ExcludedDNSNames"}
    ext_allow = {"cabf_br/lint_aia_must_contain_permitted_access_method.go": "selects the one extension with the AIA OID",
                 "cabf_br/lint_crlissuer_must_not_be_present_in_cdp.go": "selects the one extension with the CDP OID"}
    loops = d["data"].get("multi_status_loops") or []
    off = [l for l in loops if set(l["Fields"]) & san_fields or ("Extensions" in l["Fields"] and l["File"] not in ext_allow)]
    import os
    from common import cq_bytes, cq_list
    gd = os.path.join(common.GEN, "C17")
    with open(os.path.join(gd, "Obl_C17_loops.v"), "w") as f:
        f.write("From ZL Require Import Base.Bytes.\nFrom Coq Require Import List.\nImport ListNotations.\n")
        f.write("(* loops over a SAN name list or the extension list that can return two different statuses (go/ast facts, regenerated; reviewed OID-selecting loops excluded) *)\n")
        f.write("Definition multi_status_loops : list bytes := %s.\n" % cq_list([cq_bytes("%s:%d %s" % (l["File"], l["Line"], "/".join(l["Statuses"]))) for l in off]))
        f.write("Lemma no_multi_status_loop : match multi_status_loops with nil => true | _ => false end = true.\nProof. vm_compute. reflexivity. Qed.\n")
    ok, outp = common.coqc(os.path.join(gd, "Obl_C17_loops.v"))
    ctx.oblige("Obl_C17_loops: no Execute/CheckApplies loop over a SAN name list or the extension list returns two different statuses from inside the loop (%d multi-status loops elsewhere recorded)" % (len(loops) - len(off)), ok, outp[-800:])
    for l in off:
        ctx.violation("multi-status-loop:%s:%d" % (l["File"], l["Line"]), "the loop at %s:%d over %s can return %s from inside the loop: the verdict depends on which element comes first" % (
            l["File"], l["Line"], "/".join(l["Fields"]), " or ".join(l["Statuses"])), {"theorem_or_correspondence": "Gen.Obl_C17_loops.no_multi_status_loop", "loop": l}, found_input=False)
    ctx.notes["multi_status_loops_elsewhere"] = [l for l in loops if l not in off]
    st = d.get("stats", {})
    ctx.add_eval(st.get("san_permutations", 0) + st.get("extension_permutations", 0), distinct=st.get("san_permutations", 0), traces=st.get("san_permutations", 0) + st.get("extension_permutations", 0))
    ctx.cov["rule"] = ("generated certificates whose SAN holds 2-4 GeneralNames drawn from a pool of compliant / non-compliant / unparseable names of every type (dNSName, rfc822Name, URI, "
                      "iPAddress, registeredID, directoryName), every permutation re-encoded in the DER, re-parsed and linted with all certificate lints; corpus certificates with their SAN "
                      "reversed and shuffled and their extension list reversed and shuffled (when no OID repeats); SelfSigned carried over because re-ordering invalidates the signature; "
                      "distinct = permutations")
    ctx.notes["stats"] = st
    ctx.notes["lints_reading_extension_list"] = d["data"].get("extension_list_readers")
    ctx.partial = ("theorem-backed: any rule of the form 'finding if some element offends (else NA if some element is unparseable) else pass' is permutation invariant, the seven DNS-label "
                   "lints are modelled in that form and tied to the code by correspondence, fourteen more name-scanning lints (label length, empty label, characters, wildcard placement, duplicates, NUL, "
                   "leading period, name length ...) are modelled in full in Kernels/Names.v with their verdicts proved invariant under every permutation of the SAN dNSNames, and OID lookup in a duplicate-free extension list is order independent. Explored: every other "
                   "lint (the ~345 other bodies are not modelled), by re-encoding certificates with permuted SAN entries / extensions and comparing all status vectors.")
