"""C18 - TLD validity follows the delegation table exactly."""
import os
import common
from common import cq_list

THEOREMS = ["c18_valid_iff", "c18_ever_iff", "c18_lint", "c18_lower_ascii", "c18_regen_entries_partial", "c18_regen_fails_closed", "c18_regen_validate"]


def run(ctx):
    for t, r in common.standard_theorems(ctx, "Props.C18", THEOREMS):
        ctx.violation("theorem:" + t, "property theorem %s no longer checks: %s" % (t, r[:500]),
                      {"theorem_or_correspondence": "ZL.Props.C18." + t}, found_input=False)
    gtld = common.build_gtld_update()
    d = common.harness_json(["c18"], env={"VERIF_GTLD_BIN": gtld})
    gd = common.gendir("C18")
    with open(os.path.join(gd, "TldData.v"), "w") as f:
        f.write("From ZL Require Import Base.Bytes Kernels.Tld.\n")
        f.write("Definition tbl : list tld := [\n  " + ";\n  ".join(d["data"]["table_coq"]) + "\n].\n")
    ok, out = common.coqc(os.path.join(gd, "TldData.v"))
    if not ok:
        raise common.BuildBroken("TldData.v does not compile: " + out[-1500:])
    p = os.path.join(gd, "Obl_C18_table.v")
    with open(p, "w") as f:
        f.write("From ZL Require Import Base.Bytes Framework.Core Framework.DataChecks Kernels.Tld Props.C18.\nFrom Gen Require Import TldData.\nOpen Scope Z_scope.\n")
        f.write("(* every entry keyed by its own lower-case ASCII name, parseable delegation, empty or parseable removal >= delegation *)\n")
        f.write("Lemma tbl_ok : table_ok tbl = true.\nProof. vm_compute. reflexivity. Qed.\n")
        f.write("Lemma keys_unique : nodupb (map t_key tbl) = true.\nProof. vm_compute. reflexivity. Qed.\n")
        f.write("Theorem valid_here : forall d t, has_valid_tld tbl d t = true <->\n"
                "  exists e dl, find_tld (last_label (go_lower d)) tbl = Some e /\\ parse_date (t_deleg e) = Some dl /\\ dl <= t /\\\n"
                "               (t_removal e = [] \\/ exists rm, parse_date (t_removal e) = Some rm /\\ t <= rm).\n"
                "Proof. exact (fun d t => c18_valid_iff tbl d t tbl_ok). Qed.\n")
    ok1, out1 = common.coqc(p, timeout=900)
    ctx.oblige("Obl_C18_table: table_ok (regenerated %d-entry table) = true; keys unique" % d["data"]["table_size"], ok1, out1[-1500:])
    mon = common.report_monitor_violations(ctx, d)
    ctx.oblige("direct monitor: every entry valid at its delegation and removal instants and invalid one second outside; keys lower-case and own name", not mon)
    if not ok1 and not mon:
        ctx.violation("obl-table", "Obl_C18_table no longer checks: " + out1[-600:], {"theorem_or_correspondence": "Gen.Obl_C18_table"}, found_input=False)
    header = ("From ZL Require Import Base.Bytes Base.Corr Framework.Core Kernels.Tld.\nFrom Gen Require Import TldData.\nOpen Scope Z_scope.\n"
              "Definition chk_date (c : bytes * option Z) : bool := match parse_date (fst c), snd c with Some a, Some b => a =? b | None, None => true | _, _ => false end.\n"
              "Definition chk_valid (c : bytes * Z * bool) : bool := match c with (dm, t, b) => Bool.eqb (has_valid_tld tbl dm t) b end.\n"
              "Definition chk_ever (c : bytes * bool) : bool := Bool.eqb (is_in_tld_map tbl (fst c)) (snd c).\n"
              "Definition chk_lint (c : bytes * bool * list bytes * Z * bool) : bool := match c with (cn, ip, dns, nb, e) => Bool.eqb (lint_tld tbl cn ip dns nb) e end.\n")
    f1 = common.corr_stream(ctx, "dates", d["cases"]["dates"], header, "chk_date", "Tld.parse_date vs time.Parse(\"2006-01-02\")")
    f2 = common.corr_stream(ctx, "valid", d["cases"]["valid"], header, "chk_valid", "Tld.has_valid_tld vs util.HasValidTLD", shard=300)
    f3 = common.corr_stream(ctx, "ever", d["cases"]["ever"], header, "chk_ever", "Tld.is_in_tld_map vs util.IsInTLDMap")
    f4 = common.corr_stream(ctx, "lint", d["cases"]["lint"], header, "chk_lint", "Tld.lint_tld vs e_dnsname_not_valid_tld on re-dated certificates")
    header2 = ("From ZL Require Import Base.Bytes Base.Corr Framework.Core Kernels.Tld Kernels.GtldUpdate.\nOpen Scope Z_scope.\n"
               "Definition gentry_eqb (a b : gentry) : bool := beqb (g_name a) (g_name b) && beqb (g_deleg a) (g_deleg b) && beqb (g_removal a) (g_removal b).\n"
               "Definition same_table (m o : list (bytes * gentry)) : bool :=\n"
               "  Nat.eqb (length m) (length o) && forallb (fun ke => match get (fst ke) m with Some e => gentry_eqb e (snd ke) | None => false end) o &&\n"
               "  forallb (fun ke => match get (fst ke) o with Some e => gentry_eqb e (snd ke) | None => false end) m.\n"
               "Definition chk_regen (c : list gentry * bytes * option (list (bytes * gentry)) * bool) : bool :=\n"
               "  match c with (gs, body, obs, vok) =>\n"
               "    Bool.eqb (validate gs) vok &&\n"
               "    match render gs body, obs with None, None => true | Some m, Some o => same_table m o | _, _ => false end end.\n")
    f5 = common.corr_stream(ctx, "regen", d["cases"].get("regen", []), header2, "chk_regen", "GtldUpdate.render / validate vs cmd/zlint-gtld-update (renderGTLDMap, validateGTLDs) on generated ICANN documents", shard=120)
    if not mon:
        common.report_disagreements(ctx, "regen", f5, "Kernels.GtldUpdate.render", [])
        common.report_disagreements(ctx, "dates", f1, "Kernels.Tld.parse_date", [])
        common.report_disagreements(ctx, "valid", f2, "Kernels.Tld.has_valid_tld", [], spec_theorem="Gen.Obl_C18_table.valid_here (ZL.Props.C18.c18_valid_iff on the regenerated table)" if ok1 else None)
        common.report_disagreements(ctx, "ever", f3, "Kernels.Tld.is_in_tld_map", [])
        common.report_disagreements(ctx, "lint", f4, "Kernels.Tld.lint_tld", [], spec_theorem="ZL.Props.C18.c18_lint with Gen.Obl_C18_table.tbl_ok" if ok1 else None)
    ctx.cov["rule"] = ("every table entry at its delegation instant, one second before (and, every 3rd entry in quick, one second after and far future), every removal instant "
                      "-1s/0/+1s, with spellings (upper case, sub-labels, leading dot); odd shapes (trailing dot, empty, non-ASCII incl. U+212A/U+0130, invalid UTF-8); every table "
                      "date string and malformed variants through time.Parse; the lint on certificates re-dated around boundaries; distinct = (probe kind, verdict) classes")
    ctx.notes["table_size"] = d["data"]["table_size"]
