"""C19 - reserved-address verdicts are consistent for hosts and networks."""
import os
import common
from common import cq_list

THEOREMS = ["c19_blocks", "c19_complete", "c19_sound", "c19_monotone", "c19_single", "c19_spelling", "c19_arpa_reserved_needs_wellformed", "c19_lint_ips", "c19_lint_nets"]


def run(ctx):
    for t, r in common.standard_theorems(ctx, "Props.C19", THEOREMS):
        ctx.violation("theorem:" + t, "property theorem %s no longer checks: %s" % (t, r[:500]),
                      {"theorem_or_correspondence": "ZL.Props.C19." + t}, found_input=False)
    d = common.harness_json(["c19"])
    gd = common.gendir("C19")
    data = d["data"]
    with open(os.path.join(gd, "NetworksData.v"), "w") as f:
        f.write("From ZL Require Import Kernels.Ip.\nFrom Coq Require Import NArith List.\nImport ListNotations.\nOpen Scope N_scope.\n")
        f.write("Definition tbl : list net := %s.\n" % cq_list(data["table_coq"]))
        f.write("Definition special_blocks : list net := %s.\n" % cq_list(data["special_coq"]))
        f.write("Definition public_addrs : list addr := %s.\n" % cq_list(data["public_coq"]))
    ok, out = common.coqc(os.path.join(gd, "NetworksData.v"))
    if not ok:
        raise common.BuildBroken("NetworksData.v does not compile: " + out[-1500:])
    pre = "From ZL Require Import Kernels.Ip Props.C19.\nFrom Gen Require Import NetworksData.\nFrom Coq Require Import NArith List Bool.\nImport ListNotations.\nOpen Scope N_scope.\n"
    obls = {
        "wf": ("every table network is a canonical CIDR block of its family",
               "Lemma tbl_wf : table_wf tbl = true.\nProof. vm_compute. reflexivity. Qed.\n"),
        "closed": ("every address class excluded by IsGlobalUnicast (0.0.0.0, broadcast, 127/8, 224/4, 169.254/16, ff00::/8, fe80::/10) sits inside a table network - the hypothesis of c19_complete / c19_monotone",
                   "Lemma tbl_wf : table_wf tbl = true.\nProof. vm_compute. reflexivity. Qed.\n"
                   "Lemma tbl_closed : table_closed tbl = true.\nProof. vm_compute. reflexivity. Qed.\n"
                   "Theorem complete_here : forall a x, net_ok a -> addr_ok x -> contains a x = true -> is_reserved tbl x = true -> intersects tbl a = true.\n"
                   "Proof. exact (fun a x => c19_complete tbl a x tbl_wf tbl_closed). Qed.\n"
                   "Theorem monotone_here : forall a b, net_ok a -> net_ok b -> subnet b a = true -> intersects tbl b = true -> intersects tbl a = true.\n"
                   "Proof. exact (fun a b => c19_monotone tbl a b tbl_wf tbl_closed). Qed.\n"),
        "special": ("every special-purpose block of the statement is reserved in full (inside a table network or an excluded class; 224/4 by its sixteen /8 pieces; single addresses directly); well-known public addresses are not reserved",
                    "Definition pieces (b : net) : list net :=\n"
                    "  if (n_len b =? 4) && (n_base b =? 224 * 2 ^ 24) then map (fun k => mkNet V4 ((224 + N.of_nat k) * 2 ^ 24) 8) (seq 0 16) else [b].\n"
                    "Definition block_ok (b : net) : bool :=\n"
                    "  if n_len b =? width (n_fam b) then is_reserved tbl (base_addr b) else forallb (block_reserved tbl) (pieces b).\n"
                    "Lemma special_ok : forallb block_ok special_blocks = true.\nProof. vm_compute. reflexivity. Qed.\n"
                    "Lemma public_ok : forallb (fun x => negb (is_reserved tbl x)) public_addrs = true.\nProof. vm_compute. reflexivity. Qed.\n"),
    }
    paths = []
    for k, (what, body) in obls.items():
        p = os.path.join(gd, "Obl_C19_%s.v" % k)
        with open(p, "w") as f:
            f.write(pre + "(* " + what + " *)\n" + body)
        paths.append((k, what, p))
    res = common.coqc_many([p for _, _, p in paths])
    failed = {}
    for (k, what, p), (ok, out) in zip(paths, res):
        ctx.oblige("Obl_C19_%s: %s" % (k, what), ok, out[-1200:])
        if not ok:
            failed[k] = out
    mon = common.report_monitor_violations(ctx, d)
    ctx.oblige("direct monitor: super-net monotonicity, containment completeness, single-address equivalence, 4-byte = mapped form, public addresses", not mon)
    if failed and not mon:
        for k, out in failed.items():
            ctx.violation("obl:" + k, "data obligation Obl_C19_%s no longer checks (no failing address/network found by the monitors): %s" % (k, out[-500:]),
                          {"theorem_or_correspondence": "Gen.Obl_C19_" + k, "coqc": out[-3000:]}, found_input=False)
    header = ("From ZL Require Import Base.Corr Kernels.Ip.\nFrom Gen Require Import NetworksData.\nFrom Coq Require Import NArith ZArith List Bool.\nImport ListNotations.\n"
              "Definition chk_addr (c : addr * bool) : bool := Bool.eqb (is_reserved tbl (fst c)) (snd c).\n"
              "Definition chk_net (c : net * bool) : bool := Bool.eqb (intersects tbl (fst c)) (snd c).\n"
              "Definition st (b : bool) : Z := if b then 6%Z else 3%Z.\n"
              "Definition chk_lints (c : list addr * list addr * list net * (Z * Z * Z)) : bool :=\n"
              "  match c with (ips, cn, nets, (s1, s2, s3)) =>\n"
              "    Z.eqb (st (lint_ips tbl ips)) s1 && Z.eqb (st (lint_ips tbl cn)) s2 && (Z.eqb s3 1 || Z.eqb (st (lint_nets tbl nets)) s3) end.\n")
    f1 = common.corr_stream(ctx, "addr", d["cases"]["addr"], header, "chk_addr", "Ip.is_reserved vs util.IsIANAReserved")
    f2 = common.corr_stream(ctx, "net", d["cases"]["net"], header, "chk_net", "Ip.intersects vs util.IntersectsIANAReserved")
    f3 = common.corr_stream(ctx, "lints", d["cases"]["lints"], header, "chk_lints", "Ip.lint_ips / lint_nets vs the SAN, common-name and name-constraint lints", shard=100)
    header_a = ("From ZL Require Import Base.Bytes Base.Corr Kernels.Ip Kernels.Bodies Kernels.Names Kernels.Tld Kernels.Arpa.\nFrom Gen Require Import NetworksData.\nFrom Coq Require Import NArith ZArith List Bool.\nImport ListNotations.\n"
                "Definition obeq (a b : option bytes) : bool := match a, b with Some x, Some y => beqb x y | None, None => true | _, _ => false end.\n"
                "(* the text the model assembles for a name is the text the oracle was asked about *)\n"
                "Definition asm_ok (e : bytes * pres * option bytes) : bool := match e with (name, _, given) =>\n"
                "  let n := go_lower name in match zone_of n with\n"
                "  | ZNone => obeq given None\n"
                "  | Z4 => obeq (assemble_v4 (labels_of Z4 n)) given\n"
                "  | Z6 => match assemble_v6 (labels_of Z6 n) with Val a => obeq a given | OOR => false end end end.\n"
                "Definition chk_arpa (c : bytes * list (bytes * pres * option bytes) * (Z * Z)) : bool := match c with (cn, es, (sm, sr)) =>\n"
                "  let names := map (fun e => (fst (fst e), snd (fst e))) es in\n"
                "  forallb asm_ok es && Z.eqb (l_malformed cn names) sm && Z.eqb (l_reserved tbl cn names) sr end.\n")
    fa = common.corr_stream(ctx, "arpa", d["cases"].get("arpa", []), header_a, "chk_arpa", "Arpa.l_malformed / l_reserved (the two reverse-DNS lints; net.ParseIP as oracle, Ip.is_reserved over the build's table) and the assembled address text", shard=100)
    common.require_outcomes(ctx, "arpa", d["cases"].get("arpa", []), [{"1", "3", "5"}, {"1", "3", "6"}])
    if not mon:
        common.report_disagreements(ctx, "arpa", fa, "Kernels.Arpa", [])
        common.report_disagreements(ctx, "addr", f1, "Kernels.Ip.is_reserved", [])
        common.report_disagreements(ctx, "net", f2, "Kernels.Ip.intersects", [])
        common.report_disagreements(ctx, "lints", f3, "Kernels.Ip.lint_ips/lint_nets", [])
    ctx.cov["rule"] = ("addresses: first/last/neighbours/midpoint of every table and statement block in both byte forms, random; networks: every block, every super-net at every shorter "
                      "prefix (IPv6: every 4th in quick), random sub-nets, random networks in canonical spelling and with host bits left in the address; name constraints in both spellings; lints on certificates with chosen iPAddress SANs, IP common names and "
                      "permitted name constraints; distinct = (family, prefix bucket, verdict) classes")
    ctx.notes["stats"] = d.get("stats")
    ctx.notes["table_size"] = data["table_size"]
