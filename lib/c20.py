"""C20 - duplicated rules never contradict each other."""
import common

THEOREMS = ["c20_label_pairs", "c20_uri_host_pair", "c20_uri_host_old_refuted", "c20_mirror", "c20_limit_pairs", "c20_name_twins", "c20_san_ian_twins", "c20_pub_suffix_copy_differs", "c20_raw_twins", "c20_issuer_url_twins", "c20_cdp_url_twins", "c20_strict_implies_legacy", "c20_cs_cdp_stricter", "c20_scheme_is_not_prefix", "c20_locality_rules_exclusive", "c20_province_rules_exclusive", "c20_locality_province_same", "c20_dv_values_imply_no_conflict", "c20_cert_sign_rules_agree", "c20_ku_missing_rules", "c20_root_ku_critical_same"]


def run(ctx):
    for t, r in common.standard_theorems(ctx, "Props.C20", THEOREMS):
        ctx.violation("theorem:" + t, "property theorem %s no longer checks: %s" % (t, r[:500]),
                      {"theorem_or_correspondence": "ZL.Props.C20." + t}, found_input=False)
    d = common.harness_json(["c20"], timeout=3000)
    common.gendir("C20")
    mon = common.report_monitor_violations(ctx, d)
    gheader = ("From ZL Require Import Base.Bytes Base.Corr Kernels.Names Kernels.GeneralNames.\nFrom Coq Require Import ZArith List.\nImport ListNotations.\nOpen Scope Z_scope.\n"
               "Fixpoint zl_eqb (a b : list Z) : bool := match a, b with [], [] => true | x :: a', y :: b' => (x =? y) && zl_eqb a' b' | _, _ => false end.\n"
               "Definition chkg (c : gview * list Z) : bool := zl_eqb (all_gn_lints (fst c)) (snd c).\n")
    fg = common.corr_stream(ctx, "gn", d["cases"].get("gn", []), gheader, "chkg",
                            "GeneralNames.all_gn_lints (seventeen general-name lints, modelled in full; c20_san_ian_twins applies to the model) vs the real lints")
    if not mon:
        common.report_disagreements(ctx, "gn", fg, "Kernels.GeneralNames.all_gn_lints", [])
    rheader = gheader + "Definition chkr (c : rview * list Z) : bool := zl_eqb (all_raw_lints (fst c)) (snd c).\n"
    common.require_outcomes(ctx, "gn", d["cases"].get("gn", []), [{"1", "3", "6"}] * 7 + [{"1", "3", "5"}] + [{"1", "3", "6"}] * 8 + [{"1", "3", "5"}])
    common.require_outcomes(ctx, "gnraw", d["cases"].get("gnraw", []), [{"1", "3", "6"}] * 6)
    fr = common.corr_stream(ctx, "gnraw", d["cases"].get("gnraw", []), rheader, "chkr",
                            "GeneralNames.all_raw_lints (IA5 content of dNSNames / URIs and empty names, SAN and IAN copies) vs the real lints; members read by the harness's own TLV reader")
    if not mon:
        common.report_disagreements(ctx, "gnraw", fr, "Kernels.GeneralNames.all_raw_lints", [])
    kheader = ("From ZL Require Import Base.Bytes Base.Corr Kernels.CaKu.\nFrom Coq Require Import ZArith List.\nImport ListNotations.\nOpen Scope Z_scope.\n"
               "Fixpoint zl_eqk (a b : list Z) : bool := match a, b with [], [] => true | x :: a', y :: b' => (x =? y) && zl_eqk a' b' | _, _ => false end.\n"
               "Definition chkk (c : ca_view * list Z) : bool := zl_eqk (all_ca_ku_lints (fst c)) (snd c).\n")
    fk = common.corr_stream(ctx, "caku", d["cases"].get("caku", []), kheader, "chkk",
                            "CaKu.all_ca_ku_lints (nineteen basicConstraints / keyUsage / extKeyUsage lints with their CheckApplies, modelled in full) vs the real lints")
    common.require_outcomes(ctx, "caku", d["cases"].get("caku", []), [{"1", "3", "6"}] * 3 + [{"1", "3", "5"}] * 2 + [{"1", "3", "6"}, {"1", "3", "4"}] + [{"1", "3", "6"}] * 8 + [{"1", "3", "5"}, {"1", "3", "4"}, {"1", "3", "6"}, {"1", "3", "6"}])
    if not mon:
        common.report_disagreements(ctx, "caku", fk, "Kernels.CaKu.all_ca_ku_lints", [])
    ctx.oblige("dynamic pair monitor: on every certificate where both members of a pair run on the same content, the statuses agree (same status / finding iff finding / error implies finding); listed known findings excepted", not mon)
    never = d["data"].get("pairs_never_exercised") or []
    ctx.oblige("every one of the %d pairs was exercised with both members running" % d["stats"].get("pairs", 0), not never, str(never))
    for p in never:
        ctx.violation("pair-not-exercised:" + p, "no generated or corpus certificate made both members of %s run: the pair is no longer shown to agree" % p,
                      {"theorem_or_correspondence": "pair monitor"}, found_input=False)
    header = ("From ZL Require Import Base.Bytes Base.Corr Kernels.Pairs.\nFrom Coq Require Import ZArith List.\nImport ListNotations.\nOpen Scope Z_scope.\n"
              "Definition chk_uri (c : bool * bytes * bytes * bool * Z * Z) : bool := match c with (ok, opq, host, fq, ss, si) =>\n"
              "  let u := mkUri ok opq host in (lint_uris (san_uri_bad (fun _ => fq)) [u] =? ss) && (lint_uris (ian_uri_bad (fun _ => fq)) [u] =? si) end.\n")
    f1 = common.corr_stream(ctx, "urihost", d["cases"].get("urihost", []), header, "chk_uri", "Pairs.san_uri_bad / ian_uri_bad (url.Parse and util.IsFQDNOrIP as oracles)")
    f2 = common.corr_stream(ctx, "limits", d["cases"].get("limits", []), header, "check_limits", "Pairs.limit_lint (398/397 days; 32768/64 characters)")
    if not mon:
        common.report_disagreements(ctx, "urihost", f1, "Kernels.Pairs.san_uri_bad/ian_uri_bad", [])
        common.report_disagreements(ctx, "limits", f2, "Kernels.Pairs.limit_lint", [])
    both = d["data"].get("both_ran", {})
    ctx.add_eval(sum(both.values()), distinct=len(both), traces=sum(both.values()))
    ctx.cov["rule"] = ("23 pairs; generated certificates: SAN = IAN with 0-3 GeneralNames of every kind, 30 URIs alone (opaque, IPv6 literal, user-info, port, relative, blanks), SAN dNSNames "
                      "with the common name empty / an IP / one of them, self-issued certificates with crafted DNs (leading/trailing blanks, multi-attribute RDN, country encodings), DSA key, "
                      "AIA with internal names under both scopes, validity 396-399 days +-2s, given name/surname of 1..32769 characters; plus the corpus wherever a pair's same-content "
                      "precondition holds; distinct = pairs exercised")
    ctx.notes["both_ran"] = both
