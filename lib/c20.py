"""C20 - duplicated rules never contradict each other."""
import common

THEOREMS = ["c20_label_pairs", "c20_uri_host_pair", "c20_uri_host_old_refuted", "c20_mirror", "c20_limit_pairs", "c20_name_twins", "c20_san_ian_twins", "c20_pub_suffix_copy_differs", "c20_raw_twins", "c20_issuer_url_twins", "c20_cdp_url_twins", "c20_strict_implies_legacy", "c20_cs_cdp_stricter", "c20_scheme_is_not_prefix", "c20_locality_rules_exclusive", "c20_province_rules_exclusive", "c20_locality_province_same", "c20_dv_values_imply_no_conflict", "c20_cert_sign_rules_agree", "c20_ku_missing_rules", "c20_root_ku_critical_same", "c20_same_marking_rules_agree", "c20_criticality_table_consistent", "c20_criticality_satisfiable", "c20_serial_too_long_exact", "c20_version_rules", "c20_uid_rules", "c20_nc_min_total", "c20_nc_max_skips_permitted_email", "c20_ia5_implies_not_utf8", "c20_ev_country_is_policy_rule", "c20_ev_org_is_ov_rule", "c20_rsa_strict_accepts", "c20_rsa_strict_implies_legacy", "c20_type_and_other_partition", "c20_sub_ca_aia_same_test", "c20_subscriber_ski_always_warned", "c20_rsa_ca_error_implies_ee_error", "c20_ecdsa_error_implies_ee_notice"]


def run(ctx):
    for t, r in common.standard_theorems(ctx, "Props.C20", THEOREMS):
        ctx.violation("theorem:" + t, "property theorem %s no longer checks: %s" % (t, r[:500]),
                      {"theorem_or_correspondence": "ZL.Props.C20." + t}, found_input=False)
    d = common.harness_json(["c20"], timeout=3000)
    common.gendir("C20")
    mon = common.report_monitor_violations(ctx, d)
    gheader = ("From ZL Require Import Base.Bytes Base.Corr Kernels.Names Kernels.GeneralNames.\nFrom Coq Require Import ZArith List.\nImport ListNotations.\nOpen Scope Z_scope.\n"
               "Fixpoint zl_eqb (a b : list Z) : bool := match a, b with [], [] => true | x :: a', y :: b' => (x =? y) && zl_eqb a' b' | _, _ => false end.\n"
               "Definition chkg (c : gview * list Z) : bool := zl_eqb (all_gn_lints (fst c)) (snd c).\n")
    fg = common.corr_stream(ctx, "gn", d["cases"].get("gn", []), gheader, "chkg",
                            "GeneralNames.all_gn_lints (seventeen general-name lints, modelled in full; c20_san_ian_twins applies to the model) vs the real lints")
    if not mon:
        common.report_disagreements(ctx, "gn", fg, "Kernels.GeneralNames.all_gn_lints", [])
    rheader = gheader + "Definition chkr (c : rview * list Z) : bool := zl_eqb (all_raw_lints (fst c)) (snd c).\n"
    common.require_outcomes(ctx, "gn", d["cases"].get("gn", []), [{"1", "3", "6"}] * 7 + [{"1", "3", "5"}] + [{"1", "3", "6"}] * 8 + [{"1", "3", "5"}])
    common.require_outcomes(ctx, "gnraw", d["cases"].get("gnraw", []), [{"1", "3", "6"}] * 6)
    fr = common.corr_stream(ctx, "gnraw", d["cases"].get("gnraw", []), rheader, "chkr",
                            "GeneralNames.all_raw_lints (IA5 content of dNSNames / URIs and empty names, SAN and IAN copies) vs the real lints; members read by the harness's own TLV reader")
    if not mon:
        common.report_disagreements(ctx, "gnraw", fr, "Kernels.GeneralNames.all_raw_lints", [])
    kheader = ("From ZL Require Import Base.Bytes Base.Corr Kernels.CaKu.\nFrom Coq Require Import ZArith List.\nImport ListNotations.\nOpen Scope Z_scope.\n"
               "Fixpoint zl_eqk (a b : list Z) : bool := match a, b with [], [] => true | x :: a', y :: b' => (x =? y) && zl_eqk a' b' | _, _ => false end.\n"
               "Definition chkk (c : ca_view * list Z) : bool := zl_eqk (all_ca_ku_lints (fst c)) (snd c).\n")
    fk = common.corr_stream(ctx, "caku", d["cases"].get("caku", []), kheader, "chkk",
                            "CaKu.all_ca_ku_lints (nineteen basicConstraints / keyUsage / extKeyUsage lints with their CheckApplies, modelled in full) vs the real lints")
    common.require_outcomes(ctx, "caku", d["cases"].get("caku", []), [{"1", "3", "6"}] * 3 + [{"1", "3", "5"}] * 2 + [{"1", "3", "6"}, {"1", "3", "4"}] + [{"1", "3", "6"}] * 8 + [{"1", "3", "5"}, {"1", "3", "4"}, {"1", "3", "6"}, {"1", "3", "6"}])
    if not mon:
        common.report_disagreements(ctx, "caku", fk, "Kernels.CaKu.all_ca_ku_lints", [])
    cheader = ("From ZL Require Import Base.Bytes Base.Corr Kernels.Crit.\nFrom Coq Require Import ZArith List.\nImport ListNotations.\nOpen Scope Z_scope.\n"
               "Fixpoint zl_eqc (a b : list Z) : bool := match a, b with [], [] => true | x :: a', y :: b' => (x =? y) && zl_eqc a' b' | _, _ => false end.\n"
               "Definition chkcr (c : crit_view * list Z) : bool := zl_eqc (all_crit_lints (fst c)) (snd c).\n")
    fcr = common.corr_stream(ctx, "crit", d["cases"].get("crit", []), cheader, "chkcr",
                             "Crit.all_crit_lints (twenty criticality lints as one table-driven rule with their CheckApplies) vs the real lints")
    common.require_outcomes(ctx, "crit", d["cases"].get("crit", []), [{"1", "3", "6"}, {"1", "3", "6"}, {"1", "3", "5"}, {"1", "3", "6"}, {"1", "3", "5"}, {"1", "3", "6"}, {"1", "3", "6"}, {"1", "3", "5"},
                                                                      {"1", "3", "6"}, {"1", "3", "6"}, {"1", "3", "6"}, {"1", "3", "6"}, {"1", "3", "6"}, {"1", "3", "5"}, {"1", "3", "6"}, {"1", "3", "5"},
                                                                      {"1", "3", "6"}, {"1", "3", "5"}, {"1", "3", "6"}, {"1", "3", "6"}])
    if not mon:
        common.report_disagreements(ctx, "crit", fcr, "Kernels.Crit.all_crit_lints", [])
    hheader = ("From ZL Require Import Base.Bytes Base.Corr Kernels.Header.\nFrom Coq Require Import ZArith List.\nImport ListNotations.\nOpen Scope Z_scope.\n"
               "Fixpoint zl_eqh (a b : list Z) : bool := match a, b with [], [] => true | x :: a', y :: b' => (x =? y) && zl_eqh a' b' | _, _ => false end.\n"
               "Definition chkh (c : header_view * list Z) : bool := zl_eqh (all_header_lints (fst c)) (snd c).\n")
    fh = common.corr_stream(ctx, "header", d["cases"].get("header", []), hheader, "chkh",
                            "Header.all_header_lints (serial number length / sign, SHA-1, unique identifiers, version rules) vs the real lints by direct call")
    common.require_outcomes(ctx, "header", d["cases"].get("header", []), [{"3", "6"}] * 7)
    if not mon:
        common.report_disagreements(ctx, "header", fh, "Kernels.Header.all_header_lints", [])
    nheader = ("From ZL Require Import Base.Bytes Base.Corr Kernels.NcForm.\nFrom Coq Require Import ZArith List.\nImport ListNotations.\nOpen Scope Z_scope.\n"
               "Fixpoint zl_eqn (a b : list Z) : bool := match a, b with [], [] => true | x :: a', y :: b' => (x =? y) && zl_eqn a' b' | _, _ => false end.\n"
               "Definition chkn (c : nc_view * list Z) : bool := zl_eqn (all_nc_form_lints (fst c)) (snd c).\n")
    fnc = common.corr_stream(ctx, "ncform", d["cases"].get("ncform", []), nheader, "chkn",
                             "NcForm.all_nc_form_lints (minimum / maximum fields, unusual name forms, nameConstraints outside a CA) vs the real lints")
    common.require_outcomes(ctx, "ncform", d["cases"].get("ncform", []), [{"1", "3", "6"}, {"1", "3", "6"}, {"1", "3", "5"}, {"1", "3", "5"}, {"1", "3", "5"}, {"1", "3", "6"}])
    if not mon:
        common.report_disagreements(ctx, "ncform", fnc, "Kernels.NcForm.all_nc_form_lints", [])
    qheader = ("From ZL Require Import Base.Bytes Base.Corr Kernels.Scope Kernels.Policies.\nFrom Coq Require Import ZArith List.\nImport ListNotations.\nOpen Scope Z_scope.\n"
               "Fixpoint zl_eqq (a b : list Z) : bool := match a, b with [], [] => true | x :: a', y :: b' => (x =? y) && zl_eqq a' b' | _, _ => false end.\n"
               "Definition chkq (c : pol_view * list Z) : bool := zl_eqq (all_policy_lints (fst c)) (snd c).\n")
    fq = common.corr_stream(ctx, "policies", d["cases"].get("policies", []), qheader, "chkq",
                            "Policies.all_policy_lints (duplicate policies, noticeRef, explicitText string types; what the parser extracted as input) vs the real lints")
    common.require_outcomes(ctx, "policies", d["cases"].get("policies", []), [{"3", "6"}, {"3", "5"}, {"1", "3", "6"}, {"1", "3", "5"}])
    if not mon:
        common.report_disagreements(ctx, "policies", fq, "Kernels.Policies.all_policy_lints", [])
    sheader = ("From ZL Require Import Base.Bytes Base.Corr Kernels.SmimeKu.\nFrom Coq Require Import ZArith List.\nImport ListNotations.\nOpen Scope Z_scope.\n"
               "Fixpoint zl_eqs (a b : list Z) : bool := match a, b with [], [] => true | x :: a', y :: b' => (x =? y) && zl_eqs a' b' | _, _ => false end.\n"
               "Definition chks (c : Z * list Z) : bool := zl_eqs (all_smime_ku_lints (fst c)) (snd c).\n")
    fs = common.corr_stream(ctx, "smimeku", d["cases"].get("smimeku", []), sheader, "chks",
                            "SmimeKu.all_smime_ku_lints vs the six S/MIME key-usage bodies on every value of the nine key-usage bits (0..1023: the whole domain, not a sample)")
    common.require_outcomes(ctx, "smimeku", d["cases"].get("smimeku", []), [{"1", "3", "6"}] * 5 + [{"3", "6"}])
    ctx.oblige("stream smimeku is exhaustive: 1024 key-usage values", len(d["cases"].get("smimeku", [])) == 1024)
    if not mon:
        common.report_disagreements(ctx, "smimeku", fs, "Kernels.SmimeKu.all_smime_ku_lints", [])
    xheader = ("From ZL Require Import Base.Bytes Base.Corr Kernels.Crit Kernels.ExtPresence.\nFrom Coq Require Import ZArith List.\nImport ListNotations.\nOpen Scope Z_scope.\n"
               "Fixpoint zl_eqx (a b : list Z) : bool := match a, b with [], [] => true | x :: a', y :: b' => (x =? y) && zl_eqx a' b' | _, _ => false end.\n"
               "Definition chkx (c : crit_view * list Z) : bool := zl_eqx (all_presence_ext_lints (fst c)) (snd c).\n")
    fx = common.corr_stream(ctx, "extpres", d["cases"].get("extpres", []), xheader, "chkx",
                            "ExtPresence.all_presence_ext_lints (ten must-carry / must-not-carry extension lints as one table-driven rule with their CheckApplies) vs the real lints")
    common.require_outcomes(ctx, "extpres", d["cases"].get("extpres", []), [{"1", "3", "6"}, {"1", "3", "5"}, {"1", "3", "6"}, {"1", "3", "6"}, {"1", "3", "6"}, {"1", "3", "6"}, {"1", "3", "6"}, {"1", "3", "5"}, {"1", "3", "5"}, {"1", "3", "5"}])
    if not mon:
        common.report_disagreements(ctx, "extpres", fx, "Kernels.ExtPresence.all_presence_ext_lints", [])
    mheader = ("From ZL Require Import Base.Bytes Base.Corr Kernels.KuMasks.\nFrom Coq Require Import ZArith List.\nImport ListNotations.\nOpen Scope Z_scope.\n"
               "Fixpoint zl_eqm (a b : list Z) : bool := match a, b with [], [] => true | x :: a', y :: b' => (x =? y) && zl_eqm a' b' | _, _ => false end.\n"
               "Definition chkm (c : Z * list Z) : bool := zl_eqm (all_ku_mask_lints (fst c)) (snd c).\n")
    fm = common.corr_stream(ctx, "kumasks", d["cases"].get("kumasks", []), mheader, "chkm",
                            "KuMasks.all_ku_mask_lints vs five RFC key-usage bodies on every value of the nine key-usage bits (0..1023: the whole domain)")
    common.require_outcomes(ctx, "kumasks", d["cases"].get("kumasks", []), [{"3", "6"}] * 4 + [{"3", "4"}])
    ctx.oblige("stream kumasks is exhaustive: 1024 key-usage values", len(d["cases"].get("kumasks", [])) == 1024)
    if not mon:
        common.report_disagreements(ctx, "kumasks", fm, "Kernels.KuMasks.all_ku_mask_lints", [])
    ctx.oblige("dynamic pair monitor: on every certificate where both members of a pair run on the same content, the statuses agree (same status / finding iff finding / error implies finding); listed known findings excepted", not mon)
    never = d["data"].get("pairs_never_exercised") or []
    ctx.oblige("every one of the %d pairs was exercised with both members running" % d["stats"].get("pairs", 0), not never, str(never))
    for p in never:
        ctx.violation("pair-not-exercised:" + p, "no generated or corpus certificate made both members of %s run: the pair is no longer shown to agree" % p,
                      {"theorem_or_correspondence": "pair monitor"}, found_input=False)
    header = ("From ZL Require Import Base.Bytes Base.Corr Kernels.Pairs.\nFrom Coq Require Import ZArith List.\nImport ListNotations.\nOpen Scope Z_scope.\n"
              "Definition chk_uri (c : bool * bytes * bytes * bool * Z * Z) : bool := match c with (ok, opq, host, fq, ss, si) =>\n"
              "  let u := mkUri ok opq host in (lint_uris (san_uri_bad (fun _ => fq)) [u] =? ss) && (lint_uris (ian_uri_bad (fun _ => fq)) [u] =? si) end.\n")
    f1 = common.corr_stream(ctx, "urihost", d["cases"].get("urihost", []), header, "chk_uri", "Pairs.san_uri_bad / ian_uri_bad (url.Parse and util.IsFQDNOrIP as oracles)")
    f2 = common.corr_stream(ctx, "limits", d["cases"].get("limits", []), header, "check_limits", "Pairs.limit_lint (398/397 days; 32768/64 characters)")
    if not mon:
        common.report_disagreements(ctx, "urihost", f1, "Kernels.Pairs.san_uri_bad/ian_uri_bad", [])
        common.report_disagreements(ctx, "limits", f2, "Kernels.Pairs.limit_lint", [])
    both = d["data"].get("both_ran", {})
    ctx.add_eval(sum(both.values()), distinct=len(both), traces=sum(both.values()))
    ctx.cov["rule"] = ("23 pairs; generated certificates: SAN = IAN with 0-3 GeneralNames of every kind, 30 URIs alone (opaque, IPv6 literal, user-info, port, relative, blanks), SAN dNSNames "
                      "with the common name empty / an IP / one of them, self-issued certificates with crafted DNs (leading/trailing blanks, multi-attribute RDN, country encodings), DSA key, "
                      "AIA with internal names under both scopes, validity 396-399 days +-2s, given name/surname of 1..32769 characters; plus the corpus wherever a pair's same-content "
                      "precondition holds; distinct = pairs exercised")
    ctx.notes["both_ran"] = both
