"""Shared machinery of the /verif checks: builds, coqc runs, evidence, findings, violations."""
import fcntl
import hashlib
import json
import os
import re
import subprocess
import sys
import time
from concurrent.futures import ThreadPoolExecutor

VERIF = os.path.dirname(os.path.dirname(os.path.abspath(__file__)))
REPO = os.environ.get("VERIF_REPO", "/repo")
BUILD = os.path.join(VERIF, "build")
COQ = os.path.join(VERIF, "coq")
GEN = os.path.join(COQ, "gen")
EVID = os.path.join(VERIF, "evidence")
REPLAYS = os.path.join(VERIF, "replays")
HARNESS = os.path.join(BUILD, "harness")
KNOWN = os.path.join(VERIF, "known_findings.txt")

GOENV = dict(os.environ, GOFLAGS="-mod=mod", GOPROXY="off", GOSUMDB="off", GOTOOLCHAIN="local",
             CGO_ENABLED=os.environ.get("CGO_ENABLED", "0"))

TRUSTED_BASE = [
    "Coq 8.16.1 kernel (coqc; coqchk in the thorough tier); vm_compute bytecode VM for data obligations and in-assistant correspondence; no native_compute",
    "axioms: none declared; Print Assumptions of every property theorem is captured on each run (expected: Closed under the global context)",
    "hand-written Gallina models under coq/theories tied to /repo by the correspondence harness (Go, /verif/harness) on every run",
    "Go harness, DER kit, data extractor, census, overlay accessors (/verif/hooks, build tag verif), Python driver and canonicalisers",
    "oracles not modelled: zcrypto/x-crypto parsers, regexp, go-toml, net/url, net/mail, net.ParseIP, publicsuffix, encoding/json, Go runtime",
]


def log(*a):
    print(*a, file=sys.stderr, flush=True)


class Lock:
    def __init__(self, name):
        os.makedirs(BUILD, exist_ok=True)
        self.path = os.path.join(BUILD, name + ".lock")

    def __enter__(self):
        self.f = open(self.path, "w")
        fcntl.flock(self.f, fcntl.LOCK_EX)
        return self

    def __exit__(self, *a):
        fcntl.flock(self.f, fcntl.LOCK_UN)
        self.f.close()


def sh(cmd, cwd=None, env=None, timeout=None, inp=None):
    """Run a command, return (rc, stdout, stderr). rc=124 on timeout."""
    try:
        p = subprocess.run(cmd, cwd=cwd, env=env, timeout=timeout, input=inp,
                           stdout=subprocess.PIPE, stderr=subprocess.PIPE, shell=isinstance(cmd, str))
        return p.returncode, p.stdout.decode("utf-8", "replace"), p.stderr.decode("utf-8", "replace")
    except subprocess.TimeoutExpired as e:
        return 124, (e.stdout or b"").decode("utf-8", "replace"), (e.stderr or b"").decode("utf-8", "replace") + "\nTIMEOUT"


def overlay_path():
    os.makedirs(BUILD, exist_ok=True)
    p = os.path.join(BUILD, "overlay.json")
    ov = {"Replace": {
        os.path.join(REPO, "v3/lint/zz_verif_hooks.go"): os.path.join(VERIF, "hooks/lint_verif.go"),
        os.path.join(REPO, "v3/util/zz_verif_hooks.go"): os.path.join(VERIF, "hooks/util_verif.go"),
        os.path.join(REPO, "v3/lints/rfc/zz_verif_hooks.go"): os.path.join(VERIF, "hooks/rfc_verif.go"),
        os.path.join(REPO, "v3/cmd/zlint-gtld-update/zz_verif_hooks.go"): os.path.join(VERIF, "hooks/gtldupdate_verif.go"),
    }}
    s = json.dumps(ov)
    if not os.path.exists(p) or open(p).read() != s:
        with open(p, "w") as f:
            f.write(s)
    return p


class BuildBroken(Exception):
    pass


def build_harness(race=False):
    """Build the Go harness against /repo's current working tree (hooks on). Cheap when nothing changed."""
    out = HARNESS + ("-race" if race else "")
    with Lock("harness"):
        hdir = os.path.join(VERIF, "harness")
        # go.sum of the replaced module (plus x/tools entries kept in go.sum.extra)
        gs = open(os.path.join(REPO, "v3/go.sum")).read()
        extra = os.path.join(hdir, "go.sum.extra")
        if os.path.exists(extra):
            gs += open(extra).read()
        cur = os.path.join(hdir, "go.sum")
        if not os.path.exists(cur) or open(cur).read() != gs:
            with open(cur, "w") as f:
                f.write(gs)
        env = dict(GOENV)
        cmd = ["go", "build", "-tags", "verif", "-overlay", overlay_path(), "-o", out]
        if race:
            env["CGO_ENABLED"] = "1"
            cmd.insert(2, "-race")
        cmd.append(".")
        t = time.time()
        rc, so, se = sh(cmd, cwd=hdir, env=env, timeout=1500)
        if rc != 0:
            raise BuildBroken("go build of the harness against /repo failed:\n" + se[-4000:])
        log("[build] harness %s in %.1fs" % ("(race)" if race else "", time.time() - t))
    return out


def build_cli():
    """Build the real zlint CLI from /repo/v3/cmd/zlint."""
    out = os.path.join(BUILD, "zlint-cli")
    with Lock("cli"):
        rc, so, se = sh(["go", "build", "-o", out, "./cmd/zlint"], cwd=os.path.join(REPO, "v3"), env=GOENV, timeout=1500)
        if rc != 0:
            raise BuildBroken("go build of cmd/zlint failed:\n" + se[-4000:])
    return out


def build_gtld_update():
    """Build the table generator (v3/cmd/zlint-gtld-update) with the verif probe overlaid (hooks/gtldupdate_verif.go)."""
    out = os.path.join(BUILD, "gtld-update")
    with Lock("cli"):
        rc, so, se = sh(["go", "build", "-tags", "verif", "-overlay", overlay_path(), "-o", out, "./cmd/zlint-gtld-update"],
                        cwd=os.path.join(REPO, "v3"), env=GOENV, timeout=1500)
        if rc != 0:
            raise BuildBroken("go build of cmd/zlint-gtld-update (with the verif probe) failed:\n" + se[-4000:])
    return out


def build_coq():
    with Lock("coq"):
        if not os.path.exists(os.path.join(COQ, "Makefile")):
            rc, so, se = sh("coq_makefile -f _CoqProject $(find theories -name '*.v' | sort) -o Makefile", cwd=COQ)
            if rc != 0:
                raise BuildBroken("coq_makefile failed: " + se)
        t = time.time()
        rc, so, se = sh("timeout 3000 make -j16 2>&1", cwd=COQ)
        if rc != 0:
            raise BuildBroken("Coq library does not build:\n" + so[-4000:])
        if time.time() - t > 3:
            log("[build] coq library in %.1fs" % (time.time() - t))


def harness(args, timeout=1200, inp=None, binary=None, env=None):
    e = dict(GOENV)
    e["VERIF_REPO"] = REPO
    for k in ("VERIF_TIER", "VERIF_SEED"):
        if k in os.environ:
            e[k] = os.environ[k]
    if env:
        e.update(env)
    rc, so, se = sh([binary or HARNESS] + args, cwd=VERIF, env=e, timeout=timeout, inp=inp)
    return rc, so, se


STALLS = []


def harness_json(args, timeout=1200, **kw):
    rc, so, se = harness(args, timeout=timeout, **kw)
    if rc == 5 and so.strip().startswith("{"):
        # the stall detector fired: keep what the harness had found until then (its correspondence cases are dropped)
        try:
            d = json.loads(so)
            STALLS.append((" ".join(args[:3]), (d.get("data") or {}).get("stalled", "")[:3000]))
            d.setdefault("cases", {})
            return StallDict(d)
        except ValueError:
            pass
    if rc != 0:
        raise BuildBroken("harness %s failed (rc=%d): %s" % (" ".join(args[:3]), rc, se[-3000:]))
    return json.loads(so)


class StallDict(dict):
    """Output of a harness run that stalled: any stream asked for is empty."""
    def __getitem__(self, k):
        if k == "cases":
            return EmptyStreams()
        return dict.get(self, k, {})


class EmptyStreams(dict):
    def __getitem__(self, k):
        return []

    def get(self, k, default=None):
        return []


def gendir(pid):
    d = os.path.join(GEN, pid)
    os.makedirs(d, exist_ok=True)
    for f in os.listdir(d):
        os.unlink(os.path.join(d, f))
    return d


def coqc(path, timeout=600, mem_kb=12_000_000):
    """Compile one generated file. Returns (ok, output)."""
    d = os.path.dirname(path)
    cmd = "ulimit -v %d; timeout %d coqc -q -Q %s ZL -Q %s Gen -w -notation-overridden,-deprecated-hint-without-locality %s 2>&1" % (
        mem_kb, timeout, os.path.join(COQ, "theories"), d, path)
    rc, so, se = sh(cmd, cwd=d)
    return rc == 0, so


def coqc_many(paths, timeout=600, jobs=12):
    with ThreadPoolExecutor(max_workers=jobs) as ex:
        return list(ex.map(lambda p: coqc(p, timeout), paths))


# ---------- rendering Coq terms ----------

def cq_bytes(b):
    """bytes -> Coq term of type `bytes` (list N)."""
    if isinstance(b, str):
        b = b.encode("utf-8")
    if len(b) == 0:
        return "(@nil N)"
    if len(b) > 0 and all(32 <= c < 127 and c != 34 for c in b):
        return '(s2b "%s")' % b.decode("ascii")
    return "[" + ";".join(str(c) for c in b) + "]%N"


def cq_list(items):
    return "[" + "; ".join(items) + "]"


def cq_bool(b):
    return "true" if b else "false"


def cq_z(n):
    return "(%d)%%Z" % n


def cq_opt(x):
    return "None" if x is None else "(Some %s)" % x


# ---------- correspondence: cases evaluated in Coq ----------

def run_cases(pid, name, header, case_terms, check_fn, shard=400, timeout=900, workdir=None):
    """Write Cases_<name>_<k>.v files: each defines `cases : list T` and prints the indices (N) on which
    `check_fn` (a Coq function T -> bool) is false. Returns (n_ok_files, list of failing global indices, logs)."""
    d = workdir or os.path.join(GEN, pid)
    os.makedirs(d, exist_ok=True)
    paths = []
    for k in range(0, max(len(case_terms), 1), shard):
        chunk = case_terms[k:k + shard]
        p = os.path.join(d, "Cases_%s_%d.v" % (name, k // shard))
        with open(p, "w") as f:
            f.write(header + "\n")
            f.write("Definition cases := [\n  " + ";\n  ".join(chunk) + "\n].\n")
            f.write("Definition failing := Eval vm_compute in ZL.Base.Corr.failing_indices (%s) cases.\n" % check_fn)
            f.write("Print failing.\n")
        paths.append(p)
    res = coqc_many(paths, timeout)
    failing, logs, okfiles = [], [], 0
    for i, (ok, out) in enumerate(res):
        if not ok and "Cannot infer the implicit parameter" in out:
            # a shard in which some list position is empty in every case has nothing to infer the element type from:
            # take the type of the cases from the domain of the check function and try again
            src = open(paths[i]).read().replace(
                "Definition cases := [",
                "Definition cases_ty := ltac:(match type of (%s) with ?T -> _ => exact T end).\nDefinition cases : list cases_ty := [" % check_fn, 1)
            with open(paths[i], "w") as f:
                f.write(src)
            ok, out = coqc(paths[i], timeout=timeout)
        if not ok:
            logs.append((paths[i], out[-3000:]))
            continue
        m = re.search(r"failing\s*=\s*(.*?)\s*:\s*list", out, re.S)
        if not m:
            logs.append((paths[i], "unparseable output: " + out[-2000:]))
            continue
        okfiles += 1
        body = m.group(1).strip()
        if body not in ("[]", "nil"):
            for t in re.findall(r"(\d+)", body):
                failing.append(i * shard + int(t))
    return okfiles, len(paths), failing, logs


def print_assumptions(pid, module, theorems, workdir=None):
    """Compile a file that Requires the property module and prints assumptions of each theorem.
    Returns dict theorem -> 'closed' | text of axioms | 'missing'."""
    d = workdir or os.path.join(GEN, pid)
    os.makedirs(d, exist_ok=True)
    p = os.path.join(d, "Assump_%s.v" % pid)
    with open(p, "w") as f:
        f.write("From ZL Require Import %s.\n" % module)
        for t in theorems:
            f.write('Goal True. idtac "@@BEGIN %s". Abort.\nPrint Assumptions %s.\nGoal True. idtac "@@END %s". Abort.\n' % (t, t, t))
    ok, out = coqc(p, timeout=300)
    res = {}
    for t in theorems:
        m = re.search(r"@@BEGIN %s\n(.*?)@@END %s" % (re.escape(t), re.escape(t)), out, re.S)
        if not m:
            res[t] = "missing"
        elif "Closed under the global context" in m.group(1):
            res[t] = "closed"
        else:
            res[t] = m.group(1).strip()
    if not ok:
        res["__error__"] = out[-2000:]
    return res


# ---------- known findings ----------

def load_known():
    """known_findings.txt: `finding: property=<id> key=<key> <what>` and `fixed: property=<id> <commit> <what>`."""
    findings = {}
    if os.path.exists(KNOWN):
        for line in open(KNOWN):
            line = line.strip()
            m = re.match(r"finding:\s+property=(\S+)\s+key=(\S+)\s+(.*)", line)
            if m:
                findings[(m.group(1), m.group(2))] = m.group(3)
    return findings


# ---------- check context ----------

class Ctx:
    def __init__(self, pid, tier, seed):
        self.pid, self.tier, self.seed = pid, tier, seed
        self.t0 = time.time()
        self.violations = []   # dicts with key, what, input...
        self.known_hits = []
        self.obligations = []  # (name, ok:bool, detail)
        self.cov = {"evaluations": 0, "distinct_nontrivial": 0, "rule": "", "samples": [],
                    "traces_validated_against_impl": 0}
        self.assumptions = []
        self.notes = {}
        self.known = load_known()
        self.partial = None
        os.makedirs(REPLAYS, exist_ok=True)
        for f in os.listdir(REPLAYS):
            if f.startswith(pid + "-"):
                os.unlink(os.path.join(REPLAYS, f))

    @property
    def quick(self):
        return self.tier == "quick"

    def oblige(self, name, ok, detail=""):
        self.obligations.append((name, bool(ok), detail))
        if not ok:
            log("[obligation FAILED] %s: %s" % (name, detail[:1500]))

    def add_eval(self, n, distinct=0, traces=0):
        self.cov["evaluations"] += n
        self.cov["distinct_nontrivial"] += distinct
        self.cov["traces_validated_against_impl"] += traces

    def sample(self, s):
        if len(self.cov["samples"]) < 8:
            self.cov["samples"].append(s)

    def violation(self, key, what, replay=None, found_input=True):
        """Report a violation unless it is a listed known finding."""
        k = (self.pid, key)
        if k in self.known:
            if key not in self.known_hits:
                self.known_hits.append(key)
                print("KNOWN-FINDING: property=%s %s [%s]" % (self.pid, self.known[k], key), flush=True)
            return False
        self.violations.append({"key": key, "what": what, "replay": replay or {}, "found_input": found_input})
        return True

    def finish(self):
        for what, dump in STALLS:
            self.violation("harness-stall:" + what, "no lint call returned for 150 s while the harness ran '%s' (a lint that does not terminate?); goroutine dump: %s" % (what, dump[:1500]),
                           {"theorem_or_correspondence": "tie: the harness could not complete '%s'" % what, "goroutines": dump}, found_input=False)
            self.oblige("the harness completes '%s' (no lint call hangs)" % what, False, dump[:800])
        del STALLS[:]
        os.makedirs(EVID, exist_ok=True)
        os.makedirs(REPLAYS, exist_ok=True)
        nobl = len(self.obligations)
        ndis = sum(1 for o in self.obligations if o[1])
        lines = []
        seen = set()
        for v in self.violations:
            if v["key"] in seen:
                continue
            seen.add(v["key"])
            h = hashlib.sha256((self.pid + v["key"]).encode()).hexdigest()[:12]
            path = os.path.join(REPLAYS, "%s-%s.json" % (self.pid, h))
            rp = {"property": self.pid, "key": v["key"], "what": v["what"], "found_failing_input": v["found_input"],
                  "tier": self.tier, "seed": self.seed}
            rp.update(v["replay"])
            rp.setdefault("how_to_replay", "cd /verif && ./check replay %s" % path)
            with open(path, "w") as f:
                json.dump(rp, f, indent=1, default=str)
            lines.append("VIOLATION property=%s replay=%s%s" % (self.pid, path, "" if v["found_input"] else " no-failing-input-found"))
        cov = dict(self.cov)
        cov.update({
            "obligations": max(nobl, 1), "discharged": ndis,
            "obligation_list": [{"name": o[0], "ok": o[1]} for o in self.obligations],
            "checker_cmd": "make -C /verif/coq (coq_makefile, full .vo build) + coqc on coq/gen/%s/*.v (vm_compute); ./check %s %s" % (self.pid, self.pid, self.tier),
            "trusted_base": TRUSTED_BASE + self.assumptions,
            "known_findings_matched": self.known_hits,
        })
        if self.partial:
            cov["partial"] = self.partial
        cov.update(self.notes)
        if not cov["samples"]:
            cov["samples"] = ["(no samples recorded)"]
        ev = {"property_id": self.pid, "tier": self.tier, "seed": self.seed, "level": "proof",
              "coverage": cov, "assumptions": TRUSTED_BASE + self.assumptions,
              "wall_s": round(time.time() - self.t0, 2), "violations": len(lines)}
        with open(os.path.join(EVID, self.pid + ".json"), "w") as f:
            json.dump(ev, f, indent=1, default=str)
        for l in lines:
            print(l, flush=True)
        log("[%s %s] obligations %d/%d, evaluations %d, violations %d, known %d, %.1fs" % (
            self.pid, self.tier, ndis, nobl, cov["evaluations"], len(lines), len(self.known_hits), time.time() - self.t0))
        return 1 if lines else 0


def standard_theorems(ctx, module, theorems):
    """Obligation per property theorem: exists in the compiled library and is closed (axiom-free)."""
    res = print_assumptions(ctx.pid, module, theorems)
    bad = []
    for t in theorems:
        r = res.get(t, "missing")
        ok = (r == "closed")
        ctx.oblige("theorem %s (Print Assumptions: %s)" % (t, "closed" if ok else r[:200]), ok, r)
        if not ok:
            bad.append((t, r))
    ctx.notes["print_assumptions"] = {t: res.get(t, "missing") for t in theorems}
    if ctx.tier == "thorough":
        ok, what = coqchk_audit()
        ctx.oblige("coqchk -silent -o over every compiled library of the development (independent checker; once per hash of the .v sources): axioms <none>, no type-in-type, "
                   "no unsafe fixpoints, no assumed positivity", ok, what)
        ctx.notes["coqchk"] = what[-600:]
        if not ok:
            ctx.violation("coqchk", "Coq's independent checker does not accept the development as axiom-free: " + what[-600:],
                          {"theorem_or_correspondence": "coqchk over ZL.*"}, found_input=False)
    return bad


def coqchk_audit():
    """(ok, report).  tools/coqchk.sh rebuilds a scratch copy of coq/theories and runs coqchk -o on all of it; its log is
    stamped with the hash of the .v sources, so it runs once per state of the development (about a minute)."""
    with Lock("coqchk"):
        rc, so, se = sh("find theories -name '*.v' | sort | xargs sha256sum | sha256sum | cut -c1-32", cwd=COQ)
        h = so.strip()
        stamp = os.path.join(COQ, "audit", "coqchk.stamp")
        logp = os.path.join(COQ, "audit", "coqchk.log")
        if not (os.path.exists(stamp) and open(stamp).read().strip() == h and os.path.exists(logp)):
            rc, so, se = sh([os.path.join(VERIF, "tools", "coqchk.sh")], timeout=9000)
            if rc != 0:
                return False, "tools/coqchk.sh failed (rc=%d): %s" % (rc, (so + se)[-1500:])
        txt = open(logp).read()
    want = ["* Axioms: <none>", "* Constants/Inductives relying on type-in-type: <none>", "* Constants/Inductives relying on unsafe (co)fixpoints: <none>", "* Inductives whose positivity is assumed: <none>"]
    missing = [w for w in want if w not in txt]
    return (not missing), ("coqchk.log (sources %s): %s" % (h, "; ".join(w[2:] for w in want) if not missing else "MISSING " + "; ".join(missing) + " :: " + txt[-800:]))


SCRIPT_HEADER = "From ZL Require Import Base.Bytes Base.Corr Framework.Core Framework.Registry Framework.Script.\nOpen Scope Z_scope.\n"


def corr_stream(ctx, name, cases, header, check_fn, model, shard=400, sample_from=None):
    """Evaluate one stream of correspondence cases in Coq; register obligation, evals, violations."""
    if not cases:
        ctx.oblige("correspondence %s (0 cases!)" % name, False, "harness produced no cases")
        ctx.violation("corr-empty:" + name, "harness produced no cases for stream " + name,
                      {"theorem_or_correspondence": "correspondence " + model}, found_input=False)
        return []
    okf, nf, failing, logs = run_cases(ctx.pid, name, header, [c["coq"] for c in cases], check_fn, shard=shard)
    good = (okf == nf and not failing)
    ctx.oblige("correspondence %s: %s ~ implementation (%d cases, %d files)" % (name, model, len(cases), nf), good,
               (str(logs)[:1500] + " failing=" + str(failing[:10])))
    tags = {}
    for c in cases:
        tags[c.get("tag", "")] = tags.get(c.get("tag", ""), 0) + 1
    ctx.add_eval(len(cases), distinct=len(tags), traces=len(cases))
    ctx.notes.setdefault("input_distribution", {})[name] = dict(sorted(tags.items(), key=lambda kv: -kv[1])[:40])
    for c in (cases[len(cases) // 3:len(cases) // 3 + 1] + cases[-1:]):
        ctx.sample({"stream": name, "case": c.get("desc")})
    if okf != nf:
        ctx.violation("corr-broken:" + name, "correspondence file for %s did not compile/evaluate: %s" % (name, str(logs)[:1200]),
                      {"theorem_or_correspondence": "correspondence " + model, "logs": str(logs)[:4000]}, found_input=False)
    return [cases[i] for i in failing if i < len(cases)]


def split_violations(d, pid):
    """violations emitted by harness monitors are keyed '<PID>|<key>'"""
    out = []
    for v in d.get("violations") or []:
        k = v["key"]
        if "|" in k:
            p, kk = k.split("|", 1)
            if p != pid:
                continue
            v = dict(v, key=kk)
        out.append(v)
    return out


def report_monitor_violations(ctx, d):
    vs = split_violations(d, ctx.pid)
    unlisted = []
    for v in vs:
        if ctx.violation(v["key"], v["what"], {"input": v.get("input"), "expected": v.get("expected"), "observed": v.get("observed")}):
            unlisted.append(v)
    # listed known findings are printed by ctx.violation and do not fail the monitor's obligation
    return unlisted


def require_outcomes(ctx, stream, cases, required, sep="/"):
    """Non-vacuity of a correspondence stream: the tag of a case is the list of observed statuses (one position per modelled
    lint); every position must show each of the required statuses somewhere in the stream, otherwise the comparison with
    the model says nothing about that verdict of that lint."""
    seen = [set() for _ in required]
    for c in cases:
        parts = c.get("tag", "").split(sep)
        if len(parts) != len(required):
            continue
        for i, x in enumerate(parts):
            seen[i].add(x)
    missing = ["position %d lacks %s" % (i, sorted(set(r) - seen[i])) for i, r in enumerate(required) if set(r) - seen[i]]
    ctx.oblige("stream %s exercises every verdict of every modelled lint (%s)" % (stream, "; ".join("/".join(sorted(r)) for r in required)), not missing, "; ".join(missing))
    ctx.notes.setdefault("stream_outcomes", {})[stream] = [sorted(x) for x in seen]
    if missing:
        ctx.violation("stream-vacuous:" + stream, "the correspondence stream %s no longer reaches every verdict of the modelled lints (%s): the tie between model and code is not exercised there" % (stream, "; ".join(missing)),
                      {"theorem_or_correspondence": "correspondence stream " + stream}, found_input=False)


def report_disagreements(ctx, name, failing_cases, model, found_keys, spec_theorem=None):
    """model/implementation disagreement with no direct property failure found by the monitors.  When the model function
    is the property's own rule (spec_theorem names the kernel-checked statement that says so), the case on which the
    implementation returns something else IS an input on which the property fails, and it is reported as such."""
    if spec_theorem:
        for c in failing_cases[:5]:
            ctx.violation("spec:%s" % name,
                          "the implementation returns something else than %s, which %s proves to be exactly the rule the property states, on this input" % (model, spec_theorem),
                          {"input": c.get("desc"), "expected": "the value of " + model + " (see coq_case)", "observed": "the last component of coq_case", "coq_case": c.get("coq")[:2000],
                           "theorem_or_correspondence": spec_theorem})
        return
    for c in failing_cases[:5]:
        ctx.violation("corr:%s" % name,
                      "model %s and the implementation disagree (stream %s); no direct failure of the property found on this case" % (model, name),
                      {"theorem_or_correspondence": "correspondence " + model, "case": c.get("desc"), "coq_case": c.get("coq")[:2000]},
                      found_input=False)


def write_registry_data(gd, entries_coq):
    """RegistryData.v: the model registry rebuilt (inside Coq, by the model's own register) from the
    registration-order entries dumped from the running build.  The compiled file is cached by content hash
    (rebuilding the 377-lint registry in vm_compute takes ~20 s)."""
    text = ("From ZL Require Import Base.Bytes Framework.Core Framework.Registry Framework.Script.\nOpen Scope Z_scope.\n"
            "Definition entries : list (kind * bytes * bytes) := [\n  " + ";\n  ".join(entries_coq) + "\n].\n"
            "Definition real_registry : sregistry := Eval vm_compute in reg_of entries.\n")
    p = os.path.join(gd, "RegistryData.v")
    with open(p, "w") as f:
        f.write(text)
    # the cache key covers the data and the compiled library it depends on
    lib = os.path.join(COQ, "theories", "Framework", "Script.vo")
    h = hashlib.sha256((text + str(os.path.getmtime(lib)) + str(os.path.getsize(lib))).encode()).hexdigest()[:24]
    cdir = os.path.join(BUILD, "cache")
    os.makedirs(cdir, exist_ok=True)
    cvo = os.path.join(cdir, "RegistryData-%s.vo" % h)
    if os.path.exists(cvo):
        import shutil
        shutil.copy(cvo, os.path.join(gd, "RegistryData.vo"))
        return p
    ok, out = coqc(p, timeout=900)
    if not ok:
        raise BuildBroken("generated RegistryData.v does not compile: " + out[-2000:])
    try:
        import shutil
        shutil.copy(os.path.join(gd, "RegistryData.vo"), cvo)
    except OSError:
        pass
    return p

