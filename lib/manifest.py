#!/usr/bin/env python3
"""Regenerates /verif/MANIFEST.json from the table below (run: python3 lib/manifest.py)."""
import json
import os

VERIF = os.path.dirname(os.path.dirname(os.path.abspath(__file__)))

BASELINE_OFF = ("export GOTOOLCHAIN=local GOPROXY=off GOSUMDB=off; for m in $(cat /w/out/gomods.txt); do "
                "(cd /repo/$m && go test -mod=mod -json -vet=off -count=1 -timeout 25m ./...); done")

NOTE_COMMON = ("Trusted: Coq 8.16.1 kernel + vm_compute; no axioms (Print Assumptions captured per run); hand models tied to /repo by the "
               "Go correspondence harness (rebuilt from the working tree with -tags verif -overlay /verif/hooks); oracles (parsers, regexp, "
               "go-toml, net/url, publicsuffix, encoding/json, Go runtime) are not modelled. ")

# id -> (implemented, technique, level text, design_ref, note)
CHECKS = {
    "C13": (True, "Coq theorems over source-list parser and name validation + regenerated data obligations + in-Coq correspondence",
            "Proof: parse_sources accepts exactly lists of accepted elements and rejects unknown ones (all raw strings); listed names are accepted and "
            "unknown names rejected for every registry satisfying the registration invariant. The accepted-source table, listed sources, names and profiles "
            "are regenerated from the running build each run and the obligation 'every listed source is accepted' is re-checked by the kernel; "
            "the parser model is tied to SourceList.FromString by differential cases evaluated with vm_compute.",
            "DESIGN.md 5/C13", ""),
    "C01": (True, "Coq theorems over the result-set/life-cycle model (all registries, bodies incl. panics) + in-Coq correspondence with mock registries through Lint*Ex + monitor of the theorem's conclusions on the real registry",
            "Proof: for any list of lints with distinct names, any configuration and arbitrary bodies, linting returns (certificates: even when bodies panic) a set with exactly one entry per lint, "
            "the producer's metadata, flags iff contents, version 3, and only defined statuses when bodies return defined statuses (the framework adds only NA/NE/Fatal). The model is tied to "
            "zlint.Lint*Ex by scripted mock registries evaluated in Coq; the body hypotheses (no nil result, status range, CRL/OCSP panic freedom) are explored on the real registry, not proved.",
            "DESIGN.md 5/C01", "No-hang is not expressible in a total model; per-object time limits only."),
    "C03": (True, "Coq theorems (window exactness for all instants, silence outside the window for all lints/kinds/bodies) + in-Coq correspondence of checkEffective and of the life cycle",
            "Proof: check_effective e i t holds iff (e unset or e <= t) and (i unset or t < i) for all instants; outside the window every returned result is NA/NE/Fatal and the body is not run, for all "
            "lints of the three kinds, any configuration outcome and arbitrary bodies. Tied to the code by the CheckEffective API on all registry dates +-1s/1ns in three zones, scripted mock lints with call logs, "
            "and every registered lint at its own boundary dates on re-dated corpus objects.",
            "DESIGN.md 5/C03", "X.509 times being whole seconds is the parser's business (modelled, not verified)."),
    "C04": (True, "Coq theorems over the life-cycle model and scope predicates + correspondence on the life-cycle product with call logs and on every real lint via direct calls",
            "Proof: scope gate (NA, empty call log), inapplicability (NA, body not run), verdict preservation (exactly the body's result on the fresh configured instance; recover for certificates), "
            "call order, and the three scope predicates as iff against their declarative reading - for all lints, objects, configurations and bodies. Tied to the code by the product of life-cycle dimensions with "
            "instrumented mocks, by every registered lint x corpus objects fed with direct calls, and by the scope predicates on corpus + generated EKU/policy/SAN combinations.",
            "DESIGN.md 5/C04", ""),
    "C07": (True, "Coq theorem: any sub-selection/filter of a registry yields the same entry per selected lint and monotone flags + differential filtered-vs-full runs + in-Coq correspondence on filtered mock registries",
            "Proof: for every registry satisfying the registration invariant with globally unique names, every FilterOptions and every object, the filtered run returns, for each selected lint, exactly the entry "
            "of the full run and nothing for the others, and each presence flag of the filtered run implies the full run's (c07_filter_independent, via c08_exact and the result-set spec). In the model bodies are functions "
            "of (instance, object), so independence of *hidden state* is the frame condition studied under C05; here it is explored by random filters and singleton registries x corpus objects on the real registry.",
            "DESIGN.md 5/C07", "That real bodies keep no state between lints is explored (and constrained under C05), not proved."),
    "C08": (True, "Coq theorems filter_exact / filter_outcome over the registry model (all registries, all options, any regexp oracle) + in-Coq correspondence over the real 377-name registry",
            "Proof: Filter returns precisely the lints of each kind satisfying the five documented clauses (names compared after trimming), as the same lint values, in sorted order, with the configuration inherited and the result "
            "again a well-formed registry; empty options return the registry itself; the first unknown trimmed name (exclude list first) and a pattern combined with name lists are errors; otherwise a registry is returned. "
            "The model registry is rebuilt inside Coq from the registration order dumped from the running build and random FilterOptions are evaluated on both sides.",
            "DESIGN.md 5/C08", "regexp is an oracle (Go's verdict per name is passed as a bitmap)."),
    "C12": (True, "Coq invariant by induction over registration histories + kernel-checked data obligations over the registry dumped from the running build and a source census",
            "Proof: after any sequence of (successful or failed) registrations of any kind the redundant lookup tables agree (c12_register_inv); data obligations re-checked each run by vm_compute: registered count = census count, "
            "sorted census = Names(), uniqueness across kinds, sortedness, per-lint well-formedness, every lint package blank-imported, dumped tables = model tables.",
            "DESIGN.md 5/C12", "The census is syntactic (go/parser over v3/lints, build constraints honoured)."),
    "C14": (True, "Coq theorems on the status label codec and on UTF-8 sanitising (idempotent, identity on valid text) + in-Coq correspondence with LintStatus.{String,MarshalJSON,UnmarshalJSON} and encoding/json round trips",
            "Proof: the eight labels are pairwise distinct, encoding then decoding a status returns it, anything the decoder accepts is a label (unknown labels rejected), out-of-range values have the empty label and do not decode; "
            "a result survives the round trip with its status and its details passed through the string codec; sanitize (each invalid byte -> U+FFFD) is total, yields valid UTF-8, is the identity on valid UTF-8 and idempotent; "
            "the listing has one line per lint in certificate/OCSP/CRL order. encoding/json itself is an oracle: that its round trip equals sanitize is checked differentially on generated byte strings and corpus result sets.",
            "DESIGN.md 5/C14", "encoding/json is not modelled (oracle, sampled)."),
    "C16": (True, "Coq theorems over Z for every RSA predicate, trial division under a kernel-checked table obligation, Fermat soundness/completeness + in-Coq correspondence on re-keyed certificates",
            "Proof: each key-quality lint's Execute, as a function of (N, e), reports iff its arithmetic predicate holds (bit-length minima as N < 2^(k-1), bit length mod 8, parity, a factor in [2,751] given the data obligation "
            "primes_complete on the table regenerated from the build, exponent parity / < 3 / = 1 / < 65537); any Fermat factorisation reported multiplies back to N and two same-parity factors within the round budget are always found. "
            "Tied to the code by certificates whose SPKI carries chosen (N, e) through crypto/x509 and the zcrypto parser, evaluated by the real lints and by the model in Coq.",
            "DESIGN.md 5/C16", "CheckApplies of the dated lints is observed, not modelled (cases are those on which the lint applies)."),
    "C19": (True, "Coq theorems over N (CIDR nesting, completeness, monotonicity, single-address equivalence, soundness) under kernel-checked table obligations + in-Coq correspondence on addresses, networks and lints",
            "Proof: for every address and every network of any prefix length, whether or not its stated address is the first address of the range (an iPAddress name constraint is address||mask): a network containing a reserved address "
            "intersects, super-nets of intersecting networks intersect, two spellings of one range get one answer (what failed for ::ffff mask /112 before fix 608ffca), a single-address network answers like the address test, "
            "and intersects only fires on networks that contain a reserved address - given the obligations table_wf and table_closed over the network table regenerated from the build (table_closed is what failed for 127/8 before the fix); "
            "every special-purpose block of the statement is reserved in full and the listed public addresses are not (data obligations). The two reverse-DNS lints are modelled on top (Kernels.Arpa: zone, label count, assembled address text, "
            "net.ParseIP as oracle, reserved test by the same is_reserved) and compared with the code on directed names of both zones.",
            "DESIGN.md 5/C19", "Non-contiguous masks are outside the property's quantifier (a CIDR network has a prefix length)."),
    "C11": (True, "Coq theorems over the configuration-routing model (all documents, all configurable lints of the three kinds) + kernel-checked obligation on non-table sections + in-Coq correspondence on generated TOML",
            "Proof: a lint's run depends on the document only through the node stored under its own name (so none/empty/unrelated-only documents are indistinguishable and setting section A changes no lint other than A); "
            "a section the decoder rejects, or a non-table node (given the obligation that applying one is an error - which failed before the fix), makes exactly that lint fatal with the configuration-error text and nothing panics; "
            "filtered registries carry the configuration value they were created with. The go-toml decoder is an oracle. Tied to the code by generated documents x scripted configurable lints of all kinds, the four real configurable "
            "lints under inapplicable sections, the example configuration, a SetConfiguration/Filter/run op sequence, and the command-line tool with -config alone and next to every kind of selection flag.",
            "DESIGN.md 5/C11", "go-toml Unmarshal is an oracle; none of the registered lints embeds a higher-scoped configuration (checked by the census of Configure() types is not automated: stated)."),
    "C18": (True, "Coq theorems (validity iff over any well-formed table, date parser, lint-level iff) + kernel-checked well-formedness of the table regenerated from the build + in-Coq correspondence at every entry's boundaries + model of the table generator with correspondence on generated ICANN documents",
            "Proof: for any table passing table_ok, a name is valid at t iff its right-most label lower-cased is a key, t is not before the parsed delegation date and not after the parsed removal date when one is recorded; "
            "the 'ever' test ignores dates; the lint errs iff the non-IP common name or a DNS name fails at notBefore. table_ok and key uniqueness are re-checked by the kernel on the ~1570-entry table dumped from the running build; "
            "the date parser model is compared with time.Parse on every table string and malformed variants; HasValidTLD is compared at delegation/removal +-1s of every entry under several spellings. "
            "Future regenerations: the table generator (cmd/zlint-gtld-update: delegatedGTLDs, validateGTLDs, the TLD-list reader and the merge of renderGTLDMap) is modelled (Kernels.GtldUpdate); whatever the two ICANN documents say, a table it writes has "
            "only entries keyed by their own name with a parseable delegation date and an empty or parseable removal date, and one delegated entry with an unparseable date makes it write nothing (c18_regen_*); tied to the code by running the real "
            "generator (built with a verif probe that serves the documents from memory) on generated document pairs and comparing the printed table with the model in Coq.",
            "DESIGN.md 5/C18", "strings.ToLower is modelled for ASCII, invalid UTF-8 and the two non-ASCII code points that fold onto ASCII letters; other runes stay non-ASCII (sufficient because keys are ASCII, which is part of table_ok)."),
    "C06": (True, "Coq meta-theorem over the life cycle + kernel-checked obligation over per-lint status sets regenerated by an SSA translator + observation of every lint on the whole corpus",
            "Proof (partial): the framework adds only NA/NE/fatal, so a lint whose body statuses are all permitted by its prefix never violates the naming contract, for every object, configuration and entry point (c06_meta); "
            "the per-lint sets of status constants that can flow into a result are regenerated from go/ssa on every run and the kernel checks 'permitted by the prefix or a listed known finding', that all names carry a prefix, "
            "and that every status was resolved to a defined constant. Explored, not proved: that the translator over-approximates every return path (every status observed on the corpus and zoo, under the empty configuration and under user configurations with changed options, unknown and misspelt keys, must lie in the static set).",
            "DESIGN.md 5/C06", "The SSA translator (harness/facts.go) is trusted to over-approximate; nine genuine (lint, status) findings are listed in known_findings.txt."),
    "C15": (True, "Coq theorems over the CLI model (decode dispatch, fail-closed, output = library result, exit status, summary rows) + base64 round-trip theorem + in-Coq correspondence and differential runs of the built binary",
            "Proof: whatever the tool prints for an input is the marshalled library result plus a newline; PEM/DER/base64 renderings of one certificate give one output (base64 decode-after-encode, also line-wrapped, is a theorem; "
            "PEM armour, parsers, linter and marshaller are oracles); undecodable/unparseable input and unknown formats produce a failure and no output; exit status 0 iff every input was linted, one output per input in order; "
            "summary rows are the counts of info/warn/error/fatal among the printed results. Tied to the code by running the binary built from /repo on corpus objects in all encodings, from files and stdin, under six selections, "
            "with mismatched suffix/format combinations, several files per invocation, undecodable inputs and unknown selectors.",
            "DESIGN.md 5/C15", "The OS process boundary (exit status, buffering) is observed, not modelled; encoding/pem is an oracle."),
    "C05": (True, "Coq theorem: history independence/repeatability from the frame condition + kernel-checked allow-list obligations over regenerated SSA facts (I/O callees, imports, global/object writes, map iterations) + repetition, random histories, object comparison (strace in thorough)",
            "Proof (partial): if every lint call leaves the global store and the object unchanged and its result does not depend on the store, then for every history of earlier calls the result equals the result of the call alone "
            "and the object comes back unchanged (c05_history_independent). The regenerated facts must stay inside the design's allow-lists (time.Now only in the two AIA lints; os only in package lint; no writes to globals or the object; "
            "map iterations only at reviewed order-insensitive sites). Explored: that the facts imply the frame condition for each of the ~377 bodies - by 12 repetitions per object incl. generated map-order certificates, random histories, exported-field comparison, and two cold processes that lint the population (certificates, CRLs, OCSP responses) in opposite orders under different environments (TZ=UTC LANG=C vs TZ=America/New_York, Turkish locale, no home directory). "
            "Modelled in full and proved for every instant: the calendar arithmetic of e_crl_next_update_invalid (time.AddDate; Kernels/Calendar.v: civil-date round trip by a kernel-evaluated sweep of one 400-year era; c05_crl_subscriber_limit, c05_crl_ca_limit) - no zone, locale or clock is among the model's arguments - "
            "and the DSA subgroup / representation lints (c05_dsa_subgroup_residue, c05_dsa_write_would_show: a write of the reduced public value into the key is observable).",
            "DESIGN.md 5/C05", "The SSA analysis is a heuristic over-approximation (trusted). Genuine defects found here (map-order details, random status of the KU/EKU lint) were repaired in /repo."),
    "C09": (True, "Coq meta-theorem (signature-blind bodies => signature-independent result set; parser-side rule) + kernel-checked allow-list over regenerated field-read facts + signature replacement on every non-self-issued corpus certificate",
            "Proof (partial): for a certificate that is not self-issued, any two signatures of the same length give equal result sets provided every body and the framework's own reads factor through the erased view "
            "(content, signature length, SelfSigned), which the parser fixes to false for non-self-issued certificates (c09_meta, c09_parser_side). The facts 'which lint reads Signature/Raw/fingerprints/ValidationLevel/SelfSigned and where' are "
            "regenerated from go/ssa each run and must stay inside the allow-list. Explored: signature payload replaced by zeros/random/... in all 848 non-self-issued corpus certificates, status and details of all certificate lints compared.",
            "DESIGN.md 5/C09", "That the allow-listed reads are length-only / structure-only is confirmed dynamically, not proved."),
    "C10": (True, "Coq theorems (schedule independence of shared-read-only threads; read-mode lock never blocks) + kernel-checked obligations over regenerated call-graph facts + concurrent stress vs sequential results (race detector in thorough)",
            "Proof (partial): for every interleaving of threads none of whose steps writes the shared store, the shared store is unchanged and each thread ends with exactly what it computes alone; a readers-writer lock acquired only in read mode never blocks. "
            "Each run regenerates, from go/ssa, the stores to package-level state and the lock operations reachable from Lint*Ex and the registry read API and the kernel checks there are none / only read-mode ones. "
            "Explored: goroutines linting their own objects against shared registries while readers call the registry API, compared with sequential results; a freshly filtered (cold) registry used at once by Filter, Sources, Names and LintCertificateEx under a deadline; a 40000-entry revocation list linted by 16 goroutines on one processor; thorough builds the harness with -race and varies G and GOMAXPROCS. "
            "Kernel-checked as well: no lint reaches a read of the clock, a timer or the scheduler's state (same allow-list as C05), since such a step is not a function of the thread's private store.",
            "DESIGN.md 5/C10", "The Go memory model, scheduler and runtime locks are outside the model; only the schedules actually run are covered for them."),
    "C17": (True, "Coq theorems (permutation invariance of any-offender rules, of the three-way label evaluation, of fourteen fully modelled name-scanning lints, four common-name-versus-SAN lints and thirteen subject-attribute length lints, of OID lookup, and of 41 more lints: Tor descriptor, empty-name walkers over a modelled DER reader, URL lists, subject-attribute presence) + in-Coq correspondence of those 79 lints + DER-level permutation of SAN entries and extensions over all lints",
            "Proof (partial): a rule 'finding if some element offends, else NA if some element is unparseable, else pass' gives the same status on every permutation of the list; the seven DNS-label lints are modelled in that form and tied to the "
            "code by correspondence (the public-suffix parser is an oracle); fourteen more name-scanning lints (label length, empty label, character set, wildcard placement, duplicates, NUL, leading period, name length ...) are modelled in full "
            "(Kernels/Names.v) and all fourteen verdicts are proved invariant under every permutation of the SAN dNSNames; lookup by OID in a duplicate-free extension list is order independent; the pre-repair evaluation is refuted by a witness; the four lints that relate the subject common name(s) to the SAN entries "
            "(exact match, case-insensitive match, redacted names, EV wildcard; Kernels/CnSan.v) are modelled in full, proved invariant under every permutation of the dNSNames and addresses (status, and details of the exact-match lint) and the exact-match rule is characterised (c17_cn_exact_spec); the thirteen subject-attribute length lints (Kernels/SubjLen.v, one table-driven model with Go's character counting) are invariant under the order of a repeated attribute's values and report exactly when some value exceeds the limit. "
            "Also modelled in full with a permutation theorem each: the Tor service-descriptor lint (status = one order-free conjunction, c17_tor_spec / c17_tor_perm), the two empty-general-name walkers together with zcrypto's DER tag/length reader (codec round trip read_enc_tlv; c17_empty_name_spec / _perm), "
            "fifteen lints over the AIA / CDP URL lists (c17_url_lints_perm), twenty-three subject-attribute presence lints (c17_presence_lints_perm), five EV presence lints, eight more subject / validity bodies, the form lints of nameConstraints (c17_nc_form_perm) and the duplicate-policy lint (c17_policy_duplicate_perm). "
            "Every modelled-lint stream carries a non-vacuity obligation: each lint must show each of its verdicts somewhere in the stream. Explored: all other lints - generated "
            "certificates with 2-4 SAN names of every type in every order, zoo certificates with up to 257 names reversed / rotated / sorted / shuffled, and corpus certificates with SAN and extension lists reversed/shuffled, all status vectors compared.",
            "DESIGN.md 5/C17", "Re-ordering invalidates the signature: SelfSigned/ValidationLevel are carried over from the original when comparing."),
    "C20": (True, "Coq theorems per pair family (label pairs, URI-host pair as written, mirror rules, limit pairs) + in-Coq correspondence (URI host, limits) + dynamic monitor of all 23 pairs on same-content certificates",
            "Proof: the RFC/BR DNS-label variants agree whenever the common name is empty, an IP or one of the SAN names; the SAN and IAN URI-host rules (each modelled as written, url.Parse/IsFQDNOrIP as oracles) agree on every URI list - "
            "and the pre-repair IAN copy is refuted; a limit lint's error implies its stricter companion's finding for every measured value; a mirror rule applied to equal fields gives equal answers. The other copies are tied to the code "
            "only through the pair monitor: generated SAN=IAN, issuer=subject, both-scope, boundary-validity and name-length certificates plus the corpus where a pair's precondition holds; every pair must be exercised.",
            "DESIGN.md 5/C20", "Most pair members are not modelled individually; agreement for them is explored, not proved. Modelled in full since session 5: the URL-list families (twins, strict => legacy, code-signing CDP => TLS CDP, and a witness that scheme http is not the prefix http://), the subject-attribute must / must-not companions, and nineteen basicConstraints / keyUsage / extKeyUsage lints with their applicability (companion theorems c20_cert_sign_rules_agree, c20_ku_missing_rules, c20_root_ku_critical_same), twenty criticality lints and ten extension-presence lints as table-driven rules (no row demands the opposite marking of another; a marking that passes all twenty exists; the RFC / BR recommendations about subjectKeyIdentifier in subscriber certificates are shown to be opposite), seven fixed-field lints (serial longer than 20 octets exactly from 2^159), six name-constraints form lints (the maximum rule as written skips the permitted rfc822Names - an observation, DESIGN.md 13.6), four certificatePolicies lints, and eleven key-usage bodies compared with the code on EVERY value of the nine key-usage bits (their theorems are proved by sweep of the whole domain), each tied by a stream."),
    "C02": (True, "Coq theorems (fatal-origin for the framework; panic-freedom of 11 rule bodies / helpers modelled with explicit out-of-range outcomes; result-type discipline of the QC-statement parser) + in-Coq correspondence of those bodies + kernel-checked inclusion of the regenerated panic-site inventory (compiler bounds-check report + go/ssa) in an audited list + directed hostile inputs, the certificate zoo and structure-aware mutation through the three entry points",
            "Proof (partial): a fatal result of a certificate lint is the body's own decision, a configuration error, or the report of a recovered panic, so panic-free lint code never yields the panic report; CRL/OCSP linting returns iff nothing panics; "
            "the explicitText control-character walker never indexes out of range for any byte string (and without its bound check it does on [0xC2], the defect that was repaired); the three GeneralizedTime lints, the three keyUsage-encoding lints, "
            "the SCT-list lint, util.GetHost, util.GetAuthority and util.ParseBMPString (Kernels/Bodies.v, every index explicit) never index out of range - the time lints under the parser's length guard, refuted without it - and agree with the real code on ~8500 directly built inputs. "
            "Panic-site inventory (translator, regenerated every run): the bounds checks the Go compiler could not prove away in v3/lint, v3/lints and v3/util (go build -gcflags=-d=ssa/check_bce/debug=1: 65 sites today; every other index or slice expression is in range by the compiler's own proof) plus the unchecked type assertions, "
            "explicit panics and integer divisions by a variable inside lint closures (go/ssa: 19 assertions today, keyed with whether the closure tests the same type with the comma-ok form) must each be accounted for in panic_audit.txt - modelled with a safety theorem, guarded by CheckApplies or a visible test, a parser invariant, "
            "an inlined standard-library body, unreachable from any lint - and the kernel checks the inclusion (Obl_C02_panic_sites); util.ParseQcStatem's result-type discipline, on which six unchecked ETSI assertions rest, is modelled (Kernels.QcStatem, c02_qc_assert_safe) and compared with the code; the four DSA key lints are modelled as functions of the key's integers (Kernels.Dsa: total for every positive P, Q, G, Y - P = 1 included - and the subgroup lint decides exactly Y^Q = 1 mod P) and compared on the zoo's key-params class. "
            "Explored: all other rule bodies - no Coq semantics of ~365 Go bodies can be built here - by directed generation at the index/slice/type-assertion sites (hostile extension contents, name shapes) and structure-aware mutants of the corpus (30k in thorough), only inputs the parsers accept.",
            "DESIGN.md 5/C02", "A parser that itself panics on a mutant counts as not accepting it. The compiler's prove pass is trusted for the bounds checks it eliminates; panic_audit.txt is hand reasoning (trusted) about the ones it keeps; nil dereferences and panics raised inside dependencies (e.g. math/big) have no inventory and are covered by the sweeps only."),
}

REASON_PENDING = "check not built yet in this session; planned (see DESIGN.md section 5)"


def main():
    props = [json.loads(l)["id"] for l in open(os.path.join(VERIF, "properties.jsonl"))]
    checks, na = [], []
    for pid in props:
        c = CHECKS.get(pid)
        if not c or not c[0]:
            na.append({"property_id": pid, "reason": (c[4] if c and c[4] else REASON_PENDING)})
            continue
        checks.append({
            "property_id": pid,
            "quick_cmd": "./check %s quick" % pid,
            "thorough_cmd": "./check %s thorough" % pid,
            "evidence_file": "/verif/evidence/%s.json" % pid,
            "replay_cmd_template": "./check replay {path}",
            "engine": "coq+harness",
            "level_claimed": {"category": "proof", "text": c[2], "design_ref": c[3]},
            "level_note": NOTE_COMMON + c[4],
            "technique": c[1],
        })
    m = {
        "version": 1,
        "setup_cmd": "./check setup",
        "hooks": {
            "guard": "verif",
            "enable": "go build -tags verif -overlay /verif/build/overlay.json (accessor files /verif/hooks/*.go are overlaid onto packages lint, util, lints/rfc and cmd/zlint-gtld-update; /repo is not edited for instrumentation)",
            "baseline_off_cmd": BASELINE_OFF,
            "source_commits": [],
            "add_only": True,
        },
        "engines": [{"name": "coq+harness", "path": "/verif/check", "serves_properties": [c["property_id"] for c in checks],
                     "kind_free_text": "Coq 8.16 theories (coq/theories) + Go correspondence harness (harness/) + Python driver (lib/)"}],
        "checks": checks,
        "not_applicable": na,
        "notes": "All checks: ./check <id> quick|thorough. known_findings.txt lists findings/fixes. See DESIGN.md.",
    }
    with open(os.path.join(VERIF, "MANIFEST.json"), "w") as f:
        json.dump(m, f, indent=1)
    print("MANIFEST.json: %d checks, %d not_applicable" % (len(checks), len(na)))


if __name__ == "__main__":
    main()
