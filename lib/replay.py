"""./check replay <path>: re-run the check that produced a replay file (same tier and seed) on the current tree and
say whether the same violation (same property and key) is reported again."""
import json
import os
import subprocess
import sys

import common


def main(path):
    rp = json.load(open(path))
    pid, key = rp["property"], rp["key"]
    env = dict(os.environ, VERIF_SEED=str(rp.get("seed", 1)))
    tier = rp.get("tier", "quick")
    print("replaying property=%s key=%s tier=%s seed=%s" % (pid, key, tier, env["VERIF_SEED"]))
    print("recorded: " + str(rp.get("what"))[:400])
    p = subprocess.run([os.path.join(common.VERIF, "check"), pid, tier], env=env, stdout=subprocess.PIPE, stderr=subprocess.STDOUT)
    out = p.stdout.decode("utf-8", "replace")
    again = False
    for line in out.splitlines():
        if line.startswith("VIOLATION property=%s " % pid):
            f = line.split("replay=")[1].split()[0]
            try:
                if json.load(open(f)).get("key") == key:
                    again = True
                    print("STILL FAILS: " + line)
            except Exception:
                pass
    if not again:
        print("not reproduced on the current tree (check exit status %d)" % p.returncode)
    return 1 if again else 0
