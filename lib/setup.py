"""setup_cmd: build the static Coq library from clean, pre-build the harness and the CLI."""
import os
import shutil
import common


def main():
    for d in ("build", "evidence", "replays"):
        os.makedirs(os.path.join(common.VERIF, d), exist_ok=True)
    # clean Coq build
    common.sh("rm -f Makefile Makefile.conf .Makefile.d; find theories -name '*.vo' -o -name '*.vok' -o -name '*.vos' -o -name '*.glob' -o -name '.*.aux' | xargs rm -f", cwd=common.COQ)
    shutil.rmtree(common.GEN, ignore_errors=True)
    os.makedirs(common.GEN, exist_ok=True)
    common.build_coq()
    rc, so, se = common.sh("grep -rnE 'Admitted|admit\\.|^\\s*Axiom |^\\s*Parameter |Conjecture|Unset Guard|bypass_check|type-in-type' theories || true", cwd=common.COQ)
    if so.strip():
        print("FORBIDDEN constructs in Coq sources:\n" + so)
        return 1
    common.build_harness()
    common.build_cli()
    print("setup ok")
    return 0
