#!/bin/bash
# Re-checks every compiled library of the development with Coq's independent checker and records the axioms it
# depends on.  Works on a scratch copy (coqchk wants compiled files of its own; the development's build dir stays
# untouched), stamps the log with the hash of the .v sources so that a stale log is recognisable.
set -e
V=$(cd "$(dirname "$0")/.." && pwd)/coq
S=$(mktemp -d /tmp/coqchk.XXXXXX)
trap 'rm -rf "$S"' EXIT
cp -r $V/theories $V/_CoqProject "$S"/ 2>/dev/null
cd "$S"
find . -name '*.vo' -o -name '*.glob' -o -name '*.aux' -o -name '*.vos' -o -name '*.vok' | xargs rm -f
HASH=$(cd $V && find theories -name '*.v' | sort | xargs sha256sum | sha256sum | cut -c1-32)
coq_makefile -f _CoqProject $(find theories -name '*.v' | sort) -o Makefile >/dev/null
timeout 3000 make -j16 >/dev/null 2>make.err || { tail -20 make.err; exit 2; }
MODS=$(find theories -name '*.v' | sort | sed 's#^theories/#ZL.#; s#/#.#g; s#\.v$##')
timeout 6000 coqchk -silent -o -Q theories ZL $MODS > chk.log 2>&1 || { tail -30 chk.log; exit 3; }
mkdir -p $V/audit
cp chk.log $V/audit/coqchk.log
echo "$HASH" > $V/audit/coqchk.stamp
tail -12 chk.log
