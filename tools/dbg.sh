#!/bin/bash
# usage: dbg.sh <file.v> <line>  -- compile the file up to <line> and show the open goals
f=$1; n=$2
d=$(mktemp -d)
head -n $n "$f" > $d/Dbg.v
echo "Show. " >> $d/Dbg.v
cd /verif/coq && coqc -q -Q theories ZL $d/Dbg.v 2>&1 | head -${3:-60}
rm -rf $d
