#!/bin/bash
# usage: seeddemo.sh <Cxx> <name> <pkgdir-relative-to-v3> <go-test-run-regex> [demo-file]
# verifies in a fresh scratch worktree: patch applies, build ok, full suite passes, demo FAILS with patch and PASSES without;
# on success stores the seed under /verif/seeded/<Cxx>-<name>/ and removes the scratch worktree.
set -u
id=$1; name=$2; pkg=$3; run=$4; demo=${5:-demo_test.go}
src=${SEEDROOT:-/tmp/seed-}$id/_seed
wt=/tmp/verify-$id
export GOFLAGS=-mod=mod GOPROXY=off GOSUMDB=off GOTOOLCHAIN=local
git -C /repo worktree remove --force $wt 2>/dev/null
git -C /repo worktree add -q --detach $wt HEAD || exit 2
cd $wt && git apply $src/patch.diff || { echo "PATCH DOES NOT APPLY"; exit 3; }
cd $wt/v3 && go build ./... || { echo "BUILD FAILS"; exit 4; }
suite=$(go test -vet=off -count=1 ./... 2>&1 | grep -v "no test files" | grep -v "^ok" | head -5)
if [ -n "$suite" ]; then echo "SUITE FAILS WITH PATCH: $suite"; fi
cp $src/$demo $wt/v3/$pkg/zz_seed_demo_test.go
with=$(cd $wt/v3/$pkg && go test -vet=off -count=1 -run "$run" . 2>&1 | tail -3)
cd $wt && git apply -R $src/patch.diff
without=$(cd $wt/v3/$pkg && go test -vet=off -count=1 -run "$run" . 2>&1 | tail -2)
echo "WITH PATCH:    $(echo "$with" | tr '\n' ' ' | cut -c1-300)"
echo "WITHOUT PATCH: $(echo "$without" | tr '\n' ' ' | cut -c1-200)"
ok=1
echo "$with" | grep -q "^FAIL\|FAIL" || ok=0
echo "$without" | grep -q "^ok" || ok=0
[ -z "$suite" ] || ok=0
if [ $ok = 1 ]; then
  d=/verif/seeded/$id-$name; mkdir -p $d; cp $src/patch.diff $d/; cp $src/$demo $d/demo_test.go
  python3 - "$src/meta.json" "$d/meta.json" "$pkg" "$run" <<'PY'
import json,sys
m=json.load(open(sys.argv[1]))
m["confirmed"]={"by":"tools/seeddemo.sh in a fresh scratch worktree of /repo HEAD","build":"go build ./... ok","suite":"go test -vet=off -count=1 ./... (module v3): all ok with the patch",
  "demo":"copied to v3/%s as zz_seed_demo_test.go; go test -run '%s' . FAILS with the patch, passes without"%(sys.argv[3],sys.argv[4])}
m["what_was_run"]="tools/seedrun.py (git -C /repo apply patch.diff; ./check %s quick; git -C /repo checkout -- .)"%m["property"]
json.dump(m,open(sys.argv[2],"w"),indent=1)
PY
  echo "CONFIRMED -> $d"
else
  echo "NOT CONFIRMED"
fi
git -C /repo worktree remove --force $wt
