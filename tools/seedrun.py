#!/usr/bin/env python3
"""Apply each seeded change under /verif/seeded/<id>/patch.diff to /repo, run the checks of the property it breaks
(quick tier; thorough if meta says so), undo, and report which checks catch which changes."""
import json
import os
import subprocess
import sys
import time

VERIF = os.path.dirname(os.path.dirname(os.path.abspath(__file__)))
REPO = "/repo"


def sh(cmd, **kw):
    return subprocess.run(cmd, shell=True, stdout=subprocess.PIPE, stderr=subprocess.STDOUT, **kw)


def main():
    only = sys.argv[1:]
    rows = []
    # evidence files are rewritten by every check run: keep the clean-tree ones and put them back afterwards
    import shutil, tempfile
    keep = tempfile.mkdtemp(prefix="verif-evidence-")
    shutil.copytree(os.path.join(VERIF, "evidence"), os.path.join(keep, "evidence"))
    for sid in sorted(os.listdir(os.path.join(VERIF, "seeded"))):
        d = os.path.join(VERIF, "seeded", sid)
        patch = os.path.join(d, "patch.diff")
        if not os.path.isfile(patch) or (only and sid not in only):
            continue
        meta = json.load(open(os.path.join(d, "meta.json")))
        if sh("git -C %s status --porcelain --untracked-files=no" % REPO).stdout.strip():
            print("refusing: /repo has local modifications")
            return 2
        r = sh("git -C %s apply %s" % (REPO, patch))
        if r.returncode != 0:
            rows.append((sid, meta["property"], "PATCH DOES NOT APPLY", r.stdout.decode()[:200]))
            continue
        try:
            props = meta.get("checks") or [meta["property"]]
            caught = []
            for p in props:
                t0 = time.time()
                tier = meta.get("tier", "quick")
                out = sh("cd %s && ./check %s %s" % (VERIF, p, tier)).stdout.decode("utf-8", "replace")
                viol = [l for l in out.splitlines() if l.startswith("VIOLATION property=%s " % p)]
                nf = [l for l in viol if l.endswith("no-failing-input-found")]
                if not viol and meta.get("expect_known"):
                    caught.append("%s:same-known-finding (%d KNOWN-FINDING lines, exit 0) (%.0fs)" % (p, sum(1 for l in out.splitlines() if l.startswith("KNOWN-FINDING")), time.time() - t0))
                    continue
                caught.append("%s:%s%s (%.0fs)" % (p, "CAUGHT" if viol else "missed", " (%d with input, %d without)" % (len(viol) - len(nf), len(nf)) if viol else "", time.time() - t0))
            rows.append((sid, meta["property"], " ".join(caught), meta.get("needs", "")[:80]))
        finally:
            # reverse the patch (removes files the patch added), then restore anything left
            sh("git -C %s apply -R %s" % (REPO, patch))
            sh("git -C %s checkout -- ." % REPO)
    shutil.rmtree(os.path.join(VERIF, "evidence"))
    shutil.copytree(os.path.join(keep, "evidence"), os.path.join(VERIF, "evidence"))
    shutil.rmtree(keep)
    for r in rows:
        print(" | ".join(r))
    with open(os.path.join(VERIF, "seeded", "RESULTS.md"), "a") as f:
        f.write("\n## run %s\n\n| seed | property | result | needs |\n|---|---|---|---|\n" % time.strftime("%Y-%m-%d %H:%M"))
        for r in rows:
            f.write("| " + " | ".join(r) + " |\n")
    return 0


if __name__ == "__main__":
    sys.exit(main())
