#!/bin/bash
# usage: seedverify.sh <Cxx> [suffix]   -- confirm an adversary's seed in a fresh scratch worktree:
#   patch applies to HEAD, builds, the existing suite passes; prints meta; leaves /tmp/verify-<id> for the demo step
set -u
id=$1; sfx=${2:-}
src=/tmp/seed-$id/_seed
wt=/tmp/verify-$id$sfx
export GOFLAGS=-mod=mod GOPROXY=off GOSUMDB=off GOTOOLCHAIN=local
git -C /repo worktree remove --force $wt 2>/dev/null
git -C /repo worktree add -q --detach $wt HEAD || exit 2
cat $src/meta.json; echo
echo "--- patch"; cat $src/patch.diff | head -80
cd $wt && git apply $src/patch.diff || { echo "PATCH DOES NOT APPLY"; exit 3; }
cd $wt/v3 && go build ./... || { echo "BUILD FAILS"; exit 4; }
echo "--- existing suite with the patch"
go test -vet=off -count=1 ./... 2>&1 | grep -v "no test files" | grep -v "^ok" | tail -15
echo "suite-exit=${PIPESTATUS[0]}"
